// ---- spec/masm_bits.rs : hub — bit-mask facts behind the hint checks of u32clz / u32clo / u32ctz / u32cto (C09)
// GENERATED once by a script (33 + 33 cases, each a bit-vector fact); committed as text.
/// h is the number of leading zeros of the 32-bit value a
pub open spec fn clz_is(a: int, h: int) -> bool { 0 <= h <= 32 && (if h == 32 { a == 0 } else { p2(31 - h) <= a < p2(32 - h) }) }
/// h is the number of trailing zeros of the 32-bit value a (32 for a == 0)
pub open spec fn ctz_is(a: int, h: int) -> bool { 0 <= h <= 32 && (if h == 32 { a == 0 } else { a % p2(h + 1) == p2(h) }) }
/// the mask the check ANDs with: the top h+1 bits (clz) / the low h+1 bits (ctz)
pub open spec fn clz_bit(h: int) -> int { p2(32 - h) / 2 }
pub open spec fn clz_mask(h: int) -> int { 0x1_0000_0000 - p2(32 - h) + clz_bit(h) }
pub open spec fn ctz_bit(h: int) -> int { p2(h) % 0x1_0000_0000 }
pub open spec fn ctz_mask(h: int) -> int { p2(h) - 1 + ctz_bit(h) }
pub proof fn lemma_clz_mask(a: u64, h: int)
    requires a < 0x1_0000_0000, 0 <= h <= 32
    ensures 0 <= clz_mask(h) < 0x1_0000_0000, 0 <= clz_bit(h) < 0x1_0000_0000,
        ((a & (clz_mask(h) as u64)) == clz_bit(h) as u64) <==> clz_is(a as int, h),
        // leading ones: the same test on the complement pattern
        ((a & (clz_mask(h) as u64)) == (0x1_0000_0000 - p2(32 - h)) as u64) <==> clz_is(0xFFFF_FFFF - a as int, h),
{
    assert(a < 0x1_0000_0000 ==> (a ^ 0xFFFF_FFFFu64) == sub(0xFFFF_FFFFu64, a)) by (bit_vector);
    assert((a ^ 0xFFFF_FFFFu64) as int == 0xFFFF_FFFF - a as int);
    if h == 0 {
        assert(p2(32) == 4294967296) by (compute_only);
        assert(p2(31) == 2147483648) by (compute_only);
        assert(a < 0x1_0000_0000 ==> (((a & 2147483648u64) == 2147483648u64) <==> (2147483648u64 <= a && a < 4294967296u64))) by (bit_vector);
        assert(a < 0x1_0000_0000 ==> (((a & 2147483648u64) == 0u64) <==> (2147483648u64 <= (a ^ 0xFFFF_FFFFu64) && (a ^ 0xFFFF_FFFFu64) < 4294967296u64))) by (bit_vector);
    } else if h == 1 {
        assert(p2(31) == 2147483648) by (compute_only);
        assert(p2(30) == 1073741824) by (compute_only);
        assert(a < 0x1_0000_0000 ==> (((a & 3221225472u64) == 1073741824u64) <==> (1073741824u64 <= a && a < 2147483648u64))) by (bit_vector);
        assert(a < 0x1_0000_0000 ==> (((a & 3221225472u64) == 2147483648u64) <==> (1073741824u64 <= (a ^ 0xFFFF_FFFFu64) && (a ^ 0xFFFF_FFFFu64) < 2147483648u64))) by (bit_vector);
    } else if h == 2 {
        assert(p2(30) == 1073741824) by (compute_only);
        assert(p2(29) == 536870912) by (compute_only);
        assert(a < 0x1_0000_0000 ==> (((a & 3758096384u64) == 536870912u64) <==> (536870912u64 <= a && a < 1073741824u64))) by (bit_vector);
        assert(a < 0x1_0000_0000 ==> (((a & 3758096384u64) == 3221225472u64) <==> (536870912u64 <= (a ^ 0xFFFF_FFFFu64) && (a ^ 0xFFFF_FFFFu64) < 1073741824u64))) by (bit_vector);
    } else if h == 3 {
        assert(p2(29) == 536870912) by (compute_only);
        assert(p2(28) == 268435456) by (compute_only);
        assert(a < 0x1_0000_0000 ==> (((a & 4026531840u64) == 268435456u64) <==> (268435456u64 <= a && a < 536870912u64))) by (bit_vector);
        assert(a < 0x1_0000_0000 ==> (((a & 4026531840u64) == 3758096384u64) <==> (268435456u64 <= (a ^ 0xFFFF_FFFFu64) && (a ^ 0xFFFF_FFFFu64) < 536870912u64))) by (bit_vector);
    } else if h == 4 {
        assert(p2(28) == 268435456) by (compute_only);
        assert(p2(27) == 134217728) by (compute_only);
        assert(a < 0x1_0000_0000 ==> (((a & 4160749568u64) == 134217728u64) <==> (134217728u64 <= a && a < 268435456u64))) by (bit_vector);
        assert(a < 0x1_0000_0000 ==> (((a & 4160749568u64) == 4026531840u64) <==> (134217728u64 <= (a ^ 0xFFFF_FFFFu64) && (a ^ 0xFFFF_FFFFu64) < 268435456u64))) by (bit_vector);
    } else if h == 5 {
        assert(p2(27) == 134217728) by (compute_only);
        assert(p2(26) == 67108864) by (compute_only);
        assert(a < 0x1_0000_0000 ==> (((a & 4227858432u64) == 67108864u64) <==> (67108864u64 <= a && a < 134217728u64))) by (bit_vector);
        assert(a < 0x1_0000_0000 ==> (((a & 4227858432u64) == 4160749568u64) <==> (67108864u64 <= (a ^ 0xFFFF_FFFFu64) && (a ^ 0xFFFF_FFFFu64) < 134217728u64))) by (bit_vector);
    } else if h == 6 {
        assert(p2(26) == 67108864) by (compute_only);
        assert(p2(25) == 33554432) by (compute_only);
        assert(a < 0x1_0000_0000 ==> (((a & 4261412864u64) == 33554432u64) <==> (33554432u64 <= a && a < 67108864u64))) by (bit_vector);
        assert(a < 0x1_0000_0000 ==> (((a & 4261412864u64) == 4227858432u64) <==> (33554432u64 <= (a ^ 0xFFFF_FFFFu64) && (a ^ 0xFFFF_FFFFu64) < 67108864u64))) by (bit_vector);
    } else if h == 7 {
        assert(p2(25) == 33554432) by (compute_only);
        assert(p2(24) == 16777216) by (compute_only);
        assert(a < 0x1_0000_0000 ==> (((a & 4278190080u64) == 16777216u64) <==> (16777216u64 <= a && a < 33554432u64))) by (bit_vector);
        assert(a < 0x1_0000_0000 ==> (((a & 4278190080u64) == 4261412864u64) <==> (16777216u64 <= (a ^ 0xFFFF_FFFFu64) && (a ^ 0xFFFF_FFFFu64) < 33554432u64))) by (bit_vector);
    } else if h == 8 {
        assert(p2(24) == 16777216) by (compute_only);
        assert(p2(23) == 8388608) by (compute_only);
        assert(a < 0x1_0000_0000 ==> (((a & 4286578688u64) == 8388608u64) <==> (8388608u64 <= a && a < 16777216u64))) by (bit_vector);
        assert(a < 0x1_0000_0000 ==> (((a & 4286578688u64) == 4278190080u64) <==> (8388608u64 <= (a ^ 0xFFFF_FFFFu64) && (a ^ 0xFFFF_FFFFu64) < 16777216u64))) by (bit_vector);
    } else if h == 9 {
        assert(p2(23) == 8388608) by (compute_only);
        assert(p2(22) == 4194304) by (compute_only);
        assert(a < 0x1_0000_0000 ==> (((a & 4290772992u64) == 4194304u64) <==> (4194304u64 <= a && a < 8388608u64))) by (bit_vector);
        assert(a < 0x1_0000_0000 ==> (((a & 4290772992u64) == 4286578688u64) <==> (4194304u64 <= (a ^ 0xFFFF_FFFFu64) && (a ^ 0xFFFF_FFFFu64) < 8388608u64))) by (bit_vector);
    } else if h == 10 {
        assert(p2(22) == 4194304) by (compute_only);
        assert(p2(21) == 2097152) by (compute_only);
        assert(a < 0x1_0000_0000 ==> (((a & 4292870144u64) == 2097152u64) <==> (2097152u64 <= a && a < 4194304u64))) by (bit_vector);
        assert(a < 0x1_0000_0000 ==> (((a & 4292870144u64) == 4290772992u64) <==> (2097152u64 <= (a ^ 0xFFFF_FFFFu64) && (a ^ 0xFFFF_FFFFu64) < 4194304u64))) by (bit_vector);
    } else if h == 11 {
        assert(p2(21) == 2097152) by (compute_only);
        assert(p2(20) == 1048576) by (compute_only);
        assert(a < 0x1_0000_0000 ==> (((a & 4293918720u64) == 1048576u64) <==> (1048576u64 <= a && a < 2097152u64))) by (bit_vector);
        assert(a < 0x1_0000_0000 ==> (((a & 4293918720u64) == 4292870144u64) <==> (1048576u64 <= (a ^ 0xFFFF_FFFFu64) && (a ^ 0xFFFF_FFFFu64) < 2097152u64))) by (bit_vector);
    } else if h == 12 {
        assert(p2(20) == 1048576) by (compute_only);
        assert(p2(19) == 524288) by (compute_only);
        assert(a < 0x1_0000_0000 ==> (((a & 4294443008u64) == 524288u64) <==> (524288u64 <= a && a < 1048576u64))) by (bit_vector);
        assert(a < 0x1_0000_0000 ==> (((a & 4294443008u64) == 4293918720u64) <==> (524288u64 <= (a ^ 0xFFFF_FFFFu64) && (a ^ 0xFFFF_FFFFu64) < 1048576u64))) by (bit_vector);
    } else if h == 13 {
        assert(p2(19) == 524288) by (compute_only);
        assert(p2(18) == 262144) by (compute_only);
        assert(a < 0x1_0000_0000 ==> (((a & 4294705152u64) == 262144u64) <==> (262144u64 <= a && a < 524288u64))) by (bit_vector);
        assert(a < 0x1_0000_0000 ==> (((a & 4294705152u64) == 4294443008u64) <==> (262144u64 <= (a ^ 0xFFFF_FFFFu64) && (a ^ 0xFFFF_FFFFu64) < 524288u64))) by (bit_vector);
    } else if h == 14 {
        assert(p2(18) == 262144) by (compute_only);
        assert(p2(17) == 131072) by (compute_only);
        assert(a < 0x1_0000_0000 ==> (((a & 4294836224u64) == 131072u64) <==> (131072u64 <= a && a < 262144u64))) by (bit_vector);
        assert(a < 0x1_0000_0000 ==> (((a & 4294836224u64) == 4294705152u64) <==> (131072u64 <= (a ^ 0xFFFF_FFFFu64) && (a ^ 0xFFFF_FFFFu64) < 262144u64))) by (bit_vector);
    } else if h == 15 {
        assert(p2(17) == 131072) by (compute_only);
        assert(p2(16) == 65536) by (compute_only);
        assert(a < 0x1_0000_0000 ==> (((a & 4294901760u64) == 65536u64) <==> (65536u64 <= a && a < 131072u64))) by (bit_vector);
        assert(a < 0x1_0000_0000 ==> (((a & 4294901760u64) == 4294836224u64) <==> (65536u64 <= (a ^ 0xFFFF_FFFFu64) && (a ^ 0xFFFF_FFFFu64) < 131072u64))) by (bit_vector);
    } else if h == 16 {
        assert(p2(16) == 65536) by (compute_only);
        assert(p2(15) == 32768) by (compute_only);
        assert(a < 0x1_0000_0000 ==> (((a & 4294934528u64) == 32768u64) <==> (32768u64 <= a && a < 65536u64))) by (bit_vector);
        assert(a < 0x1_0000_0000 ==> (((a & 4294934528u64) == 4294901760u64) <==> (32768u64 <= (a ^ 0xFFFF_FFFFu64) && (a ^ 0xFFFF_FFFFu64) < 65536u64))) by (bit_vector);
    } else if h == 17 {
        assert(p2(15) == 32768) by (compute_only);
        assert(p2(14) == 16384) by (compute_only);
        assert(a < 0x1_0000_0000 ==> (((a & 4294950912u64) == 16384u64) <==> (16384u64 <= a && a < 32768u64))) by (bit_vector);
        assert(a < 0x1_0000_0000 ==> (((a & 4294950912u64) == 4294934528u64) <==> (16384u64 <= (a ^ 0xFFFF_FFFFu64) && (a ^ 0xFFFF_FFFFu64) < 32768u64))) by (bit_vector);
    } else if h == 18 {
        assert(p2(14) == 16384) by (compute_only);
        assert(p2(13) == 8192) by (compute_only);
        assert(a < 0x1_0000_0000 ==> (((a & 4294959104u64) == 8192u64) <==> (8192u64 <= a && a < 16384u64))) by (bit_vector);
        assert(a < 0x1_0000_0000 ==> (((a & 4294959104u64) == 4294950912u64) <==> (8192u64 <= (a ^ 0xFFFF_FFFFu64) && (a ^ 0xFFFF_FFFFu64) < 16384u64))) by (bit_vector);
    } else if h == 19 {
        assert(p2(13) == 8192) by (compute_only);
        assert(p2(12) == 4096) by (compute_only);
        assert(a < 0x1_0000_0000 ==> (((a & 4294963200u64) == 4096u64) <==> (4096u64 <= a && a < 8192u64))) by (bit_vector);
        assert(a < 0x1_0000_0000 ==> (((a & 4294963200u64) == 4294959104u64) <==> (4096u64 <= (a ^ 0xFFFF_FFFFu64) && (a ^ 0xFFFF_FFFFu64) < 8192u64))) by (bit_vector);
    } else if h == 20 {
        assert(p2(12) == 4096) by (compute_only);
        assert(p2(11) == 2048) by (compute_only);
        assert(a < 0x1_0000_0000 ==> (((a & 4294965248u64) == 2048u64) <==> (2048u64 <= a && a < 4096u64))) by (bit_vector);
        assert(a < 0x1_0000_0000 ==> (((a & 4294965248u64) == 4294963200u64) <==> (2048u64 <= (a ^ 0xFFFF_FFFFu64) && (a ^ 0xFFFF_FFFFu64) < 4096u64))) by (bit_vector);
    } else if h == 21 {
        assert(p2(11) == 2048) by (compute_only);
        assert(p2(10) == 1024) by (compute_only);
        assert(a < 0x1_0000_0000 ==> (((a & 4294966272u64) == 1024u64) <==> (1024u64 <= a && a < 2048u64))) by (bit_vector);
        assert(a < 0x1_0000_0000 ==> (((a & 4294966272u64) == 4294965248u64) <==> (1024u64 <= (a ^ 0xFFFF_FFFFu64) && (a ^ 0xFFFF_FFFFu64) < 2048u64))) by (bit_vector);
    } else if h == 22 {
        assert(p2(10) == 1024) by (compute_only);
        assert(p2(9) == 512) by (compute_only);
        assert(a < 0x1_0000_0000 ==> (((a & 4294966784u64) == 512u64) <==> (512u64 <= a && a < 1024u64))) by (bit_vector);
        assert(a < 0x1_0000_0000 ==> (((a & 4294966784u64) == 4294966272u64) <==> (512u64 <= (a ^ 0xFFFF_FFFFu64) && (a ^ 0xFFFF_FFFFu64) < 1024u64))) by (bit_vector);
    } else if h == 23 {
        assert(p2(9) == 512) by (compute_only);
        assert(p2(8) == 256) by (compute_only);
        assert(a < 0x1_0000_0000 ==> (((a & 4294967040u64) == 256u64) <==> (256u64 <= a && a < 512u64))) by (bit_vector);
        assert(a < 0x1_0000_0000 ==> (((a & 4294967040u64) == 4294966784u64) <==> (256u64 <= (a ^ 0xFFFF_FFFFu64) && (a ^ 0xFFFF_FFFFu64) < 512u64))) by (bit_vector);
    } else if h == 24 {
        assert(p2(8) == 256) by (compute_only);
        assert(p2(7) == 128) by (compute_only);
        assert(a < 0x1_0000_0000 ==> (((a & 4294967168u64) == 128u64) <==> (128u64 <= a && a < 256u64))) by (bit_vector);
        assert(a < 0x1_0000_0000 ==> (((a & 4294967168u64) == 4294967040u64) <==> (128u64 <= (a ^ 0xFFFF_FFFFu64) && (a ^ 0xFFFF_FFFFu64) < 256u64))) by (bit_vector);
    } else if h == 25 {
        assert(p2(7) == 128) by (compute_only);
        assert(p2(6) == 64) by (compute_only);
        assert(a < 0x1_0000_0000 ==> (((a & 4294967232u64) == 64u64) <==> (64u64 <= a && a < 128u64))) by (bit_vector);
        assert(a < 0x1_0000_0000 ==> (((a & 4294967232u64) == 4294967168u64) <==> (64u64 <= (a ^ 0xFFFF_FFFFu64) && (a ^ 0xFFFF_FFFFu64) < 128u64))) by (bit_vector);
    } else if h == 26 {
        assert(p2(6) == 64) by (compute_only);
        assert(p2(5) == 32) by (compute_only);
        assert(a < 0x1_0000_0000 ==> (((a & 4294967264u64) == 32u64) <==> (32u64 <= a && a < 64u64))) by (bit_vector);
        assert(a < 0x1_0000_0000 ==> (((a & 4294967264u64) == 4294967232u64) <==> (32u64 <= (a ^ 0xFFFF_FFFFu64) && (a ^ 0xFFFF_FFFFu64) < 64u64))) by (bit_vector);
    } else if h == 27 {
        assert(p2(5) == 32) by (compute_only);
        assert(p2(4) == 16) by (compute_only);
        assert(a < 0x1_0000_0000 ==> (((a & 4294967280u64) == 16u64) <==> (16u64 <= a && a < 32u64))) by (bit_vector);
        assert(a < 0x1_0000_0000 ==> (((a & 4294967280u64) == 4294967264u64) <==> (16u64 <= (a ^ 0xFFFF_FFFFu64) && (a ^ 0xFFFF_FFFFu64) < 32u64))) by (bit_vector);
    } else if h == 28 {
        assert(p2(4) == 16) by (compute_only);
        assert(p2(3) == 8) by (compute_only);
        assert(a < 0x1_0000_0000 ==> (((a & 4294967288u64) == 8u64) <==> (8u64 <= a && a < 16u64))) by (bit_vector);
        assert(a < 0x1_0000_0000 ==> (((a & 4294967288u64) == 4294967280u64) <==> (8u64 <= (a ^ 0xFFFF_FFFFu64) && (a ^ 0xFFFF_FFFFu64) < 16u64))) by (bit_vector);
    } else if h == 29 {
        assert(p2(3) == 8) by (compute_only);
        assert(p2(2) == 4) by (compute_only);
        assert(a < 0x1_0000_0000 ==> (((a & 4294967292u64) == 4u64) <==> (4u64 <= a && a < 8u64))) by (bit_vector);
        assert(a < 0x1_0000_0000 ==> (((a & 4294967292u64) == 4294967288u64) <==> (4u64 <= (a ^ 0xFFFF_FFFFu64) && (a ^ 0xFFFF_FFFFu64) < 8u64))) by (bit_vector);
    } else if h == 30 {
        assert(p2(2) == 4) by (compute_only);
        assert(p2(1) == 2) by (compute_only);
        assert(a < 0x1_0000_0000 ==> (((a & 4294967294u64) == 2u64) <==> (2u64 <= a && a < 4u64))) by (bit_vector);
        assert(a < 0x1_0000_0000 ==> (((a & 4294967294u64) == 4294967292u64) <==> (2u64 <= (a ^ 0xFFFF_FFFFu64) && (a ^ 0xFFFF_FFFFu64) < 4u64))) by (bit_vector);
    } else if h == 31 {
        assert(p2(1) == 2) by (compute_only);
        assert(p2(0) == 1) by (compute_only);
        assert(a < 0x1_0000_0000 ==> (((a & 4294967295u64) == 1u64) <==> (1u64 <= a && a < 2u64))) by (bit_vector);
        assert(a < 0x1_0000_0000 ==> (((a & 4294967295u64) == 4294967294u64) <==> (1u64 <= (a ^ 0xFFFF_FFFFu64) && (a ^ 0xFFFF_FFFFu64) < 2u64))) by (bit_vector);
    } else if h == 32 {
        assert(p2(0) == 1) by (compute_only);
        assert(a < 0x1_0000_0000 ==> (((a & 4294967295u64) == 0u64) <==> (a == 0u64))) by (bit_vector);
        assert(a < 0x1_0000_0000 ==> (((a & 4294967295u64) == 4294967295u64) <==> (a == 0xFFFF_FFFFu64))) by (bit_vector);
    }
}
pub proof fn lemma_ctz_mask(a: u64, h: int)
    requires a < 0x1_0000_0000, 0 <= h <= 32
    ensures 0 <= ctz_mask(h) < 0x1_0000_0000, 0 <= ctz_bit(h) < 0x1_0000_0000,
        ((a & (ctz_mask(h) as u64)) == ctz_bit(h) as u64) <==> ctz_is(a as int, h),
        // trailing ones
        ((a & (ctz_mask(h) as u64)) == (p2(h) - 1) as u64) <==> ctz_is(0xFFFF_FFFF - a as int, h),
{
    assert(a < 0x1_0000_0000 ==> (a ^ 0xFFFF_FFFFu64) == sub(0xFFFF_FFFFu64, a)) by (bit_vector);
    assert((a ^ 0xFFFF_FFFFu64) as int == 0xFFFF_FFFF - a as int);
    if h == 0 {
        assert(p2(0) == 1) by (compute_only);
        assert(p2(1) == 2) by (compute_only);
        assert(a < 0x1_0000_0000 ==> (((a & 1u64) == 1u64) <==> (a % 2u64 == 1u64))) by (bit_vector);
        assert(a < 0x1_0000_0000 ==> (((a & 1u64) == 0u64) <==> ((a ^ 0xFFFF_FFFFu64) % 2u64 == 1u64))) by (bit_vector);
    } else if h == 1 {
        assert(p2(1) == 2) by (compute_only);
        assert(p2(2) == 4) by (compute_only);
        assert(a < 0x1_0000_0000 ==> (((a & 3u64) == 2u64) <==> (a % 4u64 == 2u64))) by (bit_vector);
        assert(a < 0x1_0000_0000 ==> (((a & 3u64) == 1u64) <==> ((a ^ 0xFFFF_FFFFu64) % 4u64 == 2u64))) by (bit_vector);
    } else if h == 2 {
        assert(p2(2) == 4) by (compute_only);
        assert(p2(3) == 8) by (compute_only);
        assert(a < 0x1_0000_0000 ==> (((a & 7u64) == 4u64) <==> (a % 8u64 == 4u64))) by (bit_vector);
        assert(a < 0x1_0000_0000 ==> (((a & 7u64) == 3u64) <==> ((a ^ 0xFFFF_FFFFu64) % 8u64 == 4u64))) by (bit_vector);
    } else if h == 3 {
        assert(p2(3) == 8) by (compute_only);
        assert(p2(4) == 16) by (compute_only);
        assert(a < 0x1_0000_0000 ==> (((a & 15u64) == 8u64) <==> (a % 16u64 == 8u64))) by (bit_vector);
        assert(a < 0x1_0000_0000 ==> (((a & 15u64) == 7u64) <==> ((a ^ 0xFFFF_FFFFu64) % 16u64 == 8u64))) by (bit_vector);
    } else if h == 4 {
        assert(p2(4) == 16) by (compute_only);
        assert(p2(5) == 32) by (compute_only);
        assert(a < 0x1_0000_0000 ==> (((a & 31u64) == 16u64) <==> (a % 32u64 == 16u64))) by (bit_vector);
        assert(a < 0x1_0000_0000 ==> (((a & 31u64) == 15u64) <==> ((a ^ 0xFFFF_FFFFu64) % 32u64 == 16u64))) by (bit_vector);
    } else if h == 5 {
        assert(p2(5) == 32) by (compute_only);
        assert(p2(6) == 64) by (compute_only);
        assert(a < 0x1_0000_0000 ==> (((a & 63u64) == 32u64) <==> (a % 64u64 == 32u64))) by (bit_vector);
        assert(a < 0x1_0000_0000 ==> (((a & 63u64) == 31u64) <==> ((a ^ 0xFFFF_FFFFu64) % 64u64 == 32u64))) by (bit_vector);
    } else if h == 6 {
        assert(p2(6) == 64) by (compute_only);
        assert(p2(7) == 128) by (compute_only);
        assert(a < 0x1_0000_0000 ==> (((a & 127u64) == 64u64) <==> (a % 128u64 == 64u64))) by (bit_vector);
        assert(a < 0x1_0000_0000 ==> (((a & 127u64) == 63u64) <==> ((a ^ 0xFFFF_FFFFu64) % 128u64 == 64u64))) by (bit_vector);
    } else if h == 7 {
        assert(p2(7) == 128) by (compute_only);
        assert(p2(8) == 256) by (compute_only);
        assert(a < 0x1_0000_0000 ==> (((a & 255u64) == 128u64) <==> (a % 256u64 == 128u64))) by (bit_vector);
        assert(a < 0x1_0000_0000 ==> (((a & 255u64) == 127u64) <==> ((a ^ 0xFFFF_FFFFu64) % 256u64 == 128u64))) by (bit_vector);
    } else if h == 8 {
        assert(p2(8) == 256) by (compute_only);
        assert(p2(9) == 512) by (compute_only);
        assert(a < 0x1_0000_0000 ==> (((a & 511u64) == 256u64) <==> (a % 512u64 == 256u64))) by (bit_vector);
        assert(a < 0x1_0000_0000 ==> (((a & 511u64) == 255u64) <==> ((a ^ 0xFFFF_FFFFu64) % 512u64 == 256u64))) by (bit_vector);
    } else if h == 9 {
        assert(p2(9) == 512) by (compute_only);
        assert(p2(10) == 1024) by (compute_only);
        assert(a < 0x1_0000_0000 ==> (((a & 1023u64) == 512u64) <==> (a % 1024u64 == 512u64))) by (bit_vector);
        assert(a < 0x1_0000_0000 ==> (((a & 1023u64) == 511u64) <==> ((a ^ 0xFFFF_FFFFu64) % 1024u64 == 512u64))) by (bit_vector);
    } else if h == 10 {
        assert(p2(10) == 1024) by (compute_only);
        assert(p2(11) == 2048) by (compute_only);
        assert(a < 0x1_0000_0000 ==> (((a & 2047u64) == 1024u64) <==> (a % 2048u64 == 1024u64))) by (bit_vector);
        assert(a < 0x1_0000_0000 ==> (((a & 2047u64) == 1023u64) <==> ((a ^ 0xFFFF_FFFFu64) % 2048u64 == 1024u64))) by (bit_vector);
    } else if h == 11 {
        assert(p2(11) == 2048) by (compute_only);
        assert(p2(12) == 4096) by (compute_only);
        assert(a < 0x1_0000_0000 ==> (((a & 4095u64) == 2048u64) <==> (a % 4096u64 == 2048u64))) by (bit_vector);
        assert(a < 0x1_0000_0000 ==> (((a & 4095u64) == 2047u64) <==> ((a ^ 0xFFFF_FFFFu64) % 4096u64 == 2048u64))) by (bit_vector);
    } else if h == 12 {
        assert(p2(12) == 4096) by (compute_only);
        assert(p2(13) == 8192) by (compute_only);
        assert(a < 0x1_0000_0000 ==> (((a & 8191u64) == 4096u64) <==> (a % 8192u64 == 4096u64))) by (bit_vector);
        assert(a < 0x1_0000_0000 ==> (((a & 8191u64) == 4095u64) <==> ((a ^ 0xFFFF_FFFFu64) % 8192u64 == 4096u64))) by (bit_vector);
    } else if h == 13 {
        assert(p2(13) == 8192) by (compute_only);
        assert(p2(14) == 16384) by (compute_only);
        assert(a < 0x1_0000_0000 ==> (((a & 16383u64) == 8192u64) <==> (a % 16384u64 == 8192u64))) by (bit_vector);
        assert(a < 0x1_0000_0000 ==> (((a & 16383u64) == 8191u64) <==> ((a ^ 0xFFFF_FFFFu64) % 16384u64 == 8192u64))) by (bit_vector);
    } else if h == 14 {
        assert(p2(14) == 16384) by (compute_only);
        assert(p2(15) == 32768) by (compute_only);
        assert(a < 0x1_0000_0000 ==> (((a & 32767u64) == 16384u64) <==> (a % 32768u64 == 16384u64))) by (bit_vector);
        assert(a < 0x1_0000_0000 ==> (((a & 32767u64) == 16383u64) <==> ((a ^ 0xFFFF_FFFFu64) % 32768u64 == 16384u64))) by (bit_vector);
    } else if h == 15 {
        assert(p2(15) == 32768) by (compute_only);
        assert(p2(16) == 65536) by (compute_only);
        assert(a < 0x1_0000_0000 ==> (((a & 65535u64) == 32768u64) <==> (a % 65536u64 == 32768u64))) by (bit_vector);
        assert(a < 0x1_0000_0000 ==> (((a & 65535u64) == 32767u64) <==> ((a ^ 0xFFFF_FFFFu64) % 65536u64 == 32768u64))) by (bit_vector);
    } else if h == 16 {
        assert(p2(16) == 65536) by (compute_only);
        assert(p2(17) == 131072) by (compute_only);
        assert(a < 0x1_0000_0000 ==> (((a & 131071u64) == 65536u64) <==> (a % 131072u64 == 65536u64))) by (bit_vector);
        assert(a < 0x1_0000_0000 ==> (((a & 131071u64) == 65535u64) <==> ((a ^ 0xFFFF_FFFFu64) % 131072u64 == 65536u64))) by (bit_vector);
    } else if h == 17 {
        assert(p2(17) == 131072) by (compute_only);
        assert(p2(18) == 262144) by (compute_only);
        assert(a < 0x1_0000_0000 ==> (((a & 262143u64) == 131072u64) <==> (a % 262144u64 == 131072u64))) by (bit_vector);
        assert(a < 0x1_0000_0000 ==> (((a & 262143u64) == 131071u64) <==> ((a ^ 0xFFFF_FFFFu64) % 262144u64 == 131072u64))) by (bit_vector);
    } else if h == 18 {
        assert(p2(18) == 262144) by (compute_only);
        assert(p2(19) == 524288) by (compute_only);
        assert(a < 0x1_0000_0000 ==> (((a & 524287u64) == 262144u64) <==> (a % 524288u64 == 262144u64))) by (bit_vector);
        assert(a < 0x1_0000_0000 ==> (((a & 524287u64) == 262143u64) <==> ((a ^ 0xFFFF_FFFFu64) % 524288u64 == 262144u64))) by (bit_vector);
    } else if h == 19 {
        assert(p2(19) == 524288) by (compute_only);
        assert(p2(20) == 1048576) by (compute_only);
        assert(a < 0x1_0000_0000 ==> (((a & 1048575u64) == 524288u64) <==> (a % 1048576u64 == 524288u64))) by (bit_vector);
        assert(a < 0x1_0000_0000 ==> (((a & 1048575u64) == 524287u64) <==> ((a ^ 0xFFFF_FFFFu64) % 1048576u64 == 524288u64))) by (bit_vector);
    } else if h == 20 {
        assert(p2(20) == 1048576) by (compute_only);
        assert(p2(21) == 2097152) by (compute_only);
        assert(a < 0x1_0000_0000 ==> (((a & 2097151u64) == 1048576u64) <==> (a % 2097152u64 == 1048576u64))) by (bit_vector);
        assert(a < 0x1_0000_0000 ==> (((a & 2097151u64) == 1048575u64) <==> ((a ^ 0xFFFF_FFFFu64) % 2097152u64 == 1048576u64))) by (bit_vector);
    } else if h == 21 {
        assert(p2(21) == 2097152) by (compute_only);
        assert(p2(22) == 4194304) by (compute_only);
        assert(a < 0x1_0000_0000 ==> (((a & 4194303u64) == 2097152u64) <==> (a % 4194304u64 == 2097152u64))) by (bit_vector);
        assert(a < 0x1_0000_0000 ==> (((a & 4194303u64) == 2097151u64) <==> ((a ^ 0xFFFF_FFFFu64) % 4194304u64 == 2097152u64))) by (bit_vector);
    } else if h == 22 {
        assert(p2(22) == 4194304) by (compute_only);
        assert(p2(23) == 8388608) by (compute_only);
        assert(a < 0x1_0000_0000 ==> (((a & 8388607u64) == 4194304u64) <==> (a % 8388608u64 == 4194304u64))) by (bit_vector);
        assert(a < 0x1_0000_0000 ==> (((a & 8388607u64) == 4194303u64) <==> ((a ^ 0xFFFF_FFFFu64) % 8388608u64 == 4194304u64))) by (bit_vector);
    } else if h == 23 {
        assert(p2(23) == 8388608) by (compute_only);
        assert(p2(24) == 16777216) by (compute_only);
        assert(a < 0x1_0000_0000 ==> (((a & 16777215u64) == 8388608u64) <==> (a % 16777216u64 == 8388608u64))) by (bit_vector);
        assert(a < 0x1_0000_0000 ==> (((a & 16777215u64) == 8388607u64) <==> ((a ^ 0xFFFF_FFFFu64) % 16777216u64 == 8388608u64))) by (bit_vector);
    } else if h == 24 {
        assert(p2(24) == 16777216) by (compute_only);
        assert(p2(25) == 33554432) by (compute_only);
        assert(a < 0x1_0000_0000 ==> (((a & 33554431u64) == 16777216u64) <==> (a % 33554432u64 == 16777216u64))) by (bit_vector);
        assert(a < 0x1_0000_0000 ==> (((a & 33554431u64) == 16777215u64) <==> ((a ^ 0xFFFF_FFFFu64) % 33554432u64 == 16777216u64))) by (bit_vector);
    } else if h == 25 {
        assert(p2(25) == 33554432) by (compute_only);
        assert(p2(26) == 67108864) by (compute_only);
        assert(a < 0x1_0000_0000 ==> (((a & 67108863u64) == 33554432u64) <==> (a % 67108864u64 == 33554432u64))) by (bit_vector);
        assert(a < 0x1_0000_0000 ==> (((a & 67108863u64) == 33554431u64) <==> ((a ^ 0xFFFF_FFFFu64) % 67108864u64 == 33554432u64))) by (bit_vector);
    } else if h == 26 {
        assert(p2(26) == 67108864) by (compute_only);
        assert(p2(27) == 134217728) by (compute_only);
        assert(a < 0x1_0000_0000 ==> (((a & 134217727u64) == 67108864u64) <==> (a % 134217728u64 == 67108864u64))) by (bit_vector);
        assert(a < 0x1_0000_0000 ==> (((a & 134217727u64) == 67108863u64) <==> ((a ^ 0xFFFF_FFFFu64) % 134217728u64 == 67108864u64))) by (bit_vector);
    } else if h == 27 {
        assert(p2(27) == 134217728) by (compute_only);
        assert(p2(28) == 268435456) by (compute_only);
        assert(a < 0x1_0000_0000 ==> (((a & 268435455u64) == 134217728u64) <==> (a % 268435456u64 == 134217728u64))) by (bit_vector);
        assert(a < 0x1_0000_0000 ==> (((a & 268435455u64) == 134217727u64) <==> ((a ^ 0xFFFF_FFFFu64) % 268435456u64 == 134217728u64))) by (bit_vector);
    } else if h == 28 {
        assert(p2(28) == 268435456) by (compute_only);
        assert(p2(29) == 536870912) by (compute_only);
        assert(a < 0x1_0000_0000 ==> (((a & 536870911u64) == 268435456u64) <==> (a % 536870912u64 == 268435456u64))) by (bit_vector);
        assert(a < 0x1_0000_0000 ==> (((a & 536870911u64) == 268435455u64) <==> ((a ^ 0xFFFF_FFFFu64) % 536870912u64 == 268435456u64))) by (bit_vector);
    } else if h == 29 {
        assert(p2(29) == 536870912) by (compute_only);
        assert(p2(30) == 1073741824) by (compute_only);
        assert(a < 0x1_0000_0000 ==> (((a & 1073741823u64) == 536870912u64) <==> (a % 1073741824u64 == 536870912u64))) by (bit_vector);
        assert(a < 0x1_0000_0000 ==> (((a & 1073741823u64) == 536870911u64) <==> ((a ^ 0xFFFF_FFFFu64) % 1073741824u64 == 536870912u64))) by (bit_vector);
    } else if h == 30 {
        assert(p2(30) == 1073741824) by (compute_only);
        assert(p2(31) == 2147483648) by (compute_only);
        assert(a < 0x1_0000_0000 ==> (((a & 2147483647u64) == 1073741824u64) <==> (a % 2147483648u64 == 1073741824u64))) by (bit_vector);
        assert(a < 0x1_0000_0000 ==> (((a & 2147483647u64) == 1073741823u64) <==> ((a ^ 0xFFFF_FFFFu64) % 2147483648u64 == 1073741824u64))) by (bit_vector);
    } else if h == 31 {
        assert(p2(31) == 2147483648) by (compute_only);
        assert(p2(32) == 4294967296) by (compute_only);
        assert(a < 0x1_0000_0000 ==> (((a & 4294967295u64) == 2147483648u64) <==> (a % 4294967296u64 == 2147483648u64))) by (bit_vector);
        assert(a < 0x1_0000_0000 ==> (((a & 4294967295u64) == 2147483647u64) <==> ((a ^ 0xFFFF_FFFFu64) % 4294967296u64 == 2147483648u64))) by (bit_vector);
    } else if h == 32 {
        assert(p2(32) == 4294967296) by (compute_only);
        assert(a < 0x1_0000_0000 ==> (((a & 4294967295u64) == 0u64) <==> (a == 0u64))) by (bit_vector);
        assert(a < 0x1_0000_0000 ==> (((a & 4294967295u64) == 4294967295u64) <==> (a == 0xFFFF_FFFFu64))) by (bit_vector);
    }
}
// ---- hand-written part: the field arithmetic around the masks, for EVERY hint value -----------------
/// u32clz / u32clo: exponent e = 32 - hint (in the field), p = 2^e, mask = 2^32 - p, bit = p / 2
pub proof fn lemma_clz_all(a: Felt, hint: Felt)
    requires is_u32(a)
    ensures ({
        let h = hint.val();
        let e = fadd(32, fneg(h));
        let p = p2(e);
        let mask0 = fadd(0x1_0000_0000, fneg(p));
        let bit = p / 2;
        let m = fadd(mask0, bit);
        &&& (h <= 32 ==> e == 32 - h && 1 <= p <= 0x1_0000_0000 && mask0 == 0x1_0000_0000 - p && bit == clz_bit(h)
                && m == clz_mask(h) && 0 <= m < 0x1_0000_0000 && 0 <= bit < 0x1_0000_0000
                && ((((a.val() as u64) & (m as u64)) as int == bit) <==> clz_is(a.val(), h))
                && ((((a.val() as u64) & (m as u64)) as int == mask0) <==> clz_is(0xFFFF_FFFF - a.val(), h)))
        &&& (h > 32 ==> !clz_is(a.val(), h) && !clz_is(0xFFFF_FFFF - a.val(), h))
        &&& ((h > 32 && e <= 63) ==> 33 <= e && p < P() && bit < P() && mask0 < P() && 0x1_0000_0000 <= bit
                && (m >= 0x1_0000_0000 || m == 0))
    })
{
    broadcast use felt_model::felt_axioms;
    let h = hint.val();
    let e = fadd(32, fneg(h));
    assert(0 <= h < P());
    if h <= 32 {
        assert(e == 32 - h);
        lemma_p2_bits(e);
        lemma_p2_split(e);
        lemma_p2_consts();
        let p = p2(e);
        if e == 32 { assert(p == 0x1_0000_0000); } else { assert(p <= 0x8000_0000); }
        lemma_clz_mask(a.val() as u64, h);
        assert(fneg(p) == P() - p);
        assert(fadd(0x1_0000_0000, fneg(p)) == 0x1_0000_0000 - p);
        assert(clz_mask(h) == 0x1_0000_0000 - p + p / 2);
        assert(fadd(0x1_0000_0000 - p, p / 2) == 0x1_0000_0000 - p + p / 2);
    } else {
        if e <= 63 {
            // h >= P - 31
            assert(e == 32 - h + P());
            assert(e >= 33) by { assert(h <= P() - 1); }
            lemma_p2_bits(e);
            lemma_p2_split(e);
            lemma_p2_consts();
            let p = p2(e);
            lemma_p2_add(33, e - 33);
            lemma_p2_add(e - 33, 0);
            assert(p2(33) == 0x2_0000_0000) by (compute_only);
            assert(p >= 0x2_0000_0000) by (nonlinear_arith) requires p == p2(33) * p2(e - 33), p2(33) == 0x2_0000_0000, p2(e - 33) >= 1;
            assert(p <= 0x8000_0000_0000_0000);
            assert(fneg(p) == P() - p);
            let mask0 = fadd(0x1_0000_0000, fneg(p));
            assert(mask0 == 0x1_0000_0000 + P() - p);
            let bit = p / 2;
            assert(p == 2 * bit) by { lemma_p2_add(1, e - 1); assert(p2(1) == 2) by (compute_only); }
            if e == 33 { assert(fadd(mask0, bit) == 0); } else {
                lemma_p2_add(34, e - 34); lemma_p2_add(e - 34, 0);
                assert(p2(34) == 0x4_0000_0000) by (compute_only);
                assert(p >= 0x4_0000_0000) by (nonlinear_arith) requires p == p2(34) * p2(e - 34), p2(34) == 0x4_0000_0000, p2(e - 34) >= 1;
                assert(fadd(mask0, bit) == 0x1_0000_0000 + P() - p + bit);
            }
        }
    }
}
