// ---- spec/masm_bits.rs : hub — bit-mask facts behind the hint checks of u32clz / u32clo / u32ctz / u32cto (C09)
// GENERATED once by a script (33 + 33 cases, each a bit-vector fact); committed as text.
/// h is the number of leading zeros of the 32-bit value a
pub open spec fn clz_is(a: int, h: int) -> bool { 0 <= h <= 32 && (if h == 32 { a == 0 } else { p2(31 - h) <= a < p2(32 - h) }) }
/// h is the number of trailing zeros of the 32-bit value a (32 for a == 0)
pub open spec fn ctz_is(a: int, h: int) -> bool { 0 <= h <= 32 && (if h == 32 { a == 0 } else { a % p2(h + 1) == p2(h) }) }
/// the mask the check ANDs with: the top h+1 bits (clz) / the low h+1 bits (ctz)
pub open spec fn clz_bit(h: int) -> int { p2(32 - h) / 2 }
pub open spec fn clz_mask(h: int) -> int { 0x1_0000_0000 - p2(32 - h) + clz_bit(h) }
pub open spec fn ctz_bit(h: int) -> int { p2(h) % 0x1_0000_0000 }
pub open spec fn ctz_mask(h: int) -> int { p2(h) - 1 + ctz_bit(h) }
pub proof fn lemma_clz_mask(a: u64, h: int)
    requires a < 0x1_0000_0000, 0 <= h <= 32
    ensures 0 <= clz_mask(h) < 0x1_0000_0000, 0 <= clz_bit(h) < 0x1_0000_0000,
        ((a & (clz_mask(h) as u64)) == clz_bit(h) as u64) <==> clz_is(a as int, h),
        // leading ones: the same test on the complement pattern
        ((a & (clz_mask(h) as u64)) == (0x1_0000_0000 - p2(32 - h)) as u64) <==> clz_is(0xFFFF_FFFF - a as int, h),
{
    assert(a < 0x1_0000_0000 ==> (a ^ 0xFFFF_FFFFu64) == sub(0xFFFF_FFFFu64, a)) by (bit_vector);
    assert((a ^ 0xFFFF_FFFFu64) as int == 0xFFFF_FFFF - a as int);
    if h == 0 {
        assert(p2(32) == 4294967296) by (compute_only);
        assert(p2(31) == 2147483648) by (compute_only);
        assert(a < 0x1_0000_0000 ==> (((a & 2147483648u64) == 2147483648u64) <==> (2147483648u64 <= a && a < 4294967296u64))) by (bit_vector);
        assert(a < 0x1_0000_0000 ==> (((a & 2147483648u64) == 0u64) <==> (2147483648u64 <= (a ^ 0xFFFF_FFFFu64) && (a ^ 0xFFFF_FFFFu64) < 4294967296u64))) by (bit_vector);
    } else if h == 1 {
        assert(p2(31) == 2147483648) by (compute_only);
        assert(p2(30) == 1073741824) by (compute_only);
        assert(a < 0x1_0000_0000 ==> (((a & 3221225472u64) == 1073741824u64) <==> (1073741824u64 <= a && a < 2147483648u64))) by (bit_vector);
        assert(a < 0x1_0000_0000 ==> (((a & 3221225472u64) == 2147483648u64) <==> (1073741824u64 <= (a ^ 0xFFFF_FFFFu64) && (a ^ 0xFFFF_FFFFu64) < 2147483648u64))) by (bit_vector);
    } else if h == 2 {
        assert(p2(30) == 1073741824) by (compute_only);
        assert(p2(29) == 536870912) by (compute_only);
        assert(a < 0x1_0000_0000 ==> (((a & 3758096384u64) == 536870912u64) <==> (536870912u64 <= a && a < 1073741824u64))) by (bit_vector);
        assert(a < 0x1_0000_0000 ==> (((a & 3758096384u64) == 3221225472u64) <==> (536870912u64 <= (a ^ 0xFFFF_FFFFu64) && (a ^ 0xFFFF_FFFFu64) < 1073741824u64))) by (bit_vector);
    } else if h == 3 {
        assert(p2(29) == 536870912) by (compute_only);
        assert(p2(28) == 268435456) by (compute_only);
        assert(a < 0x1_0000_0000 ==> (((a & 4026531840u64) == 268435456u64) <==> (268435456u64 <= a && a < 536870912u64))) by (bit_vector);
        assert(a < 0x1_0000_0000 ==> (((a & 4026531840u64) == 3758096384u64) <==> (268435456u64 <= (a ^ 0xFFFF_FFFFu64) && (a ^ 0xFFFF_FFFFu64) < 536870912u64))) by (bit_vector);
    } else if h == 4 {
        assert(p2(28) == 268435456) by (compute_only);
        assert(p2(27) == 134217728) by (compute_only);
        assert(a < 0x1_0000_0000 ==> (((a & 4160749568u64) == 134217728u64) <==> (134217728u64 <= a && a < 268435456u64))) by (bit_vector);
        assert(a < 0x1_0000_0000 ==> (((a & 4160749568u64) == 4026531840u64) <==> (134217728u64 <= (a ^ 0xFFFF_FFFFu64) && (a ^ 0xFFFF_FFFFu64) < 268435456u64))) by (bit_vector);
    } else if h == 5 {
        assert(p2(27) == 134217728) by (compute_only);
        assert(p2(26) == 67108864) by (compute_only);
        assert(a < 0x1_0000_0000 ==> (((a & 4227858432u64) == 67108864u64) <==> (67108864u64 <= a && a < 134217728u64))) by (bit_vector);
        assert(a < 0x1_0000_0000 ==> (((a & 4227858432u64) == 4160749568u64) <==> (67108864u64 <= (a ^ 0xFFFF_FFFFu64) && (a ^ 0xFFFF_FFFFu64) < 134217728u64))) by (bit_vector);
    } else if h == 6 {
        assert(p2(26) == 67108864) by (compute_only);
        assert(p2(25) == 33554432) by (compute_only);
        assert(a < 0x1_0000_0000 ==> (((a & 4261412864u64) == 33554432u64) <==> (33554432u64 <= a && a < 67108864u64))) by (bit_vector);
        assert(a < 0x1_0000_0000 ==> (((a & 4261412864u64) == 4227858432u64) <==> (33554432u64 <= (a ^ 0xFFFF_FFFFu64) && (a ^ 0xFFFF_FFFFu64) < 67108864u64))) by (bit_vector);
    } else if h == 7 {
        assert(p2(25) == 33554432) by (compute_only);
        assert(p2(24) == 16777216) by (compute_only);
        assert(a < 0x1_0000_0000 ==> (((a & 4278190080u64) == 16777216u64) <==> (16777216u64 <= a && a < 33554432u64))) by (bit_vector);
        assert(a < 0x1_0000_0000 ==> (((a & 4278190080u64) == 4261412864u64) <==> (16777216u64 <= (a ^ 0xFFFF_FFFFu64) && (a ^ 0xFFFF_FFFFu64) < 33554432u64))) by (bit_vector);
    } else if h == 8 {
        assert(p2(24) == 16777216) by (compute_only);
        assert(p2(23) == 8388608) by (compute_only);
        assert(a < 0x1_0000_0000 ==> (((a & 4286578688u64) == 8388608u64) <==> (8388608u64 <= a && a < 16777216u64))) by (bit_vector);
        assert(a < 0x1_0000_0000 ==> (((a & 4286578688u64) == 4278190080u64) <==> (8388608u64 <= (a ^ 0xFFFF_FFFFu64) && (a ^ 0xFFFF_FFFFu64) < 16777216u64))) by (bit_vector);
    } else if h == 9 {
        assert(p2(23) == 8388608) by (compute_only);
        assert(p2(22) == 4194304) by (compute_only);
        assert(a < 0x1_0000_0000 ==> (((a & 4290772992u64) == 4194304u64) <==> (4194304u64 <= a && a < 8388608u64))) by (bit_vector);
        assert(a < 0x1_0000_0000 ==> (((a & 4290772992u64) == 4286578688u64) <==> (4194304u64 <= (a ^ 0xFFFF_FFFFu64) && (a ^ 0xFFFF_FFFFu64) < 8388608u64))) by (bit_vector);
    } else if h == 10 {
        assert(p2(22) == 4194304) by (compute_only);
        assert(p2(21) == 2097152) by (compute_only);
        assert(a < 0x1_0000_0000 ==> (((a & 4292870144u64) == 2097152u64) <==> (2097152u64 <= a && a < 4194304u64))) by (bit_vector);
        assert(a < 0x1_0000_0000 ==> (((a & 4292870144u64) == 4290772992u64) <==> (2097152u64 <= (a ^ 0xFFFF_FFFFu64) && (a ^ 0xFFFF_FFFFu64) < 4194304u64))) by (bit_vector);
    } else if h == 11 {
        assert(p2(21) == 2097152) by (compute_only);
        assert(p2(20) == 1048576) by (compute_only);
        assert(a < 0x1_0000_0000 ==> (((a & 4293918720u64) == 1048576u64) <==> (1048576u64 <= a && a < 2097152u64))) by (bit_vector);
        assert(a < 0x1_0000_0000 ==> (((a & 4293918720u64) == 4292870144u64) <==> (1048576u64 <= (a ^ 0xFFFF_FFFFu64) && (a ^ 0xFFFF_FFFFu64) < 2097152u64))) by (bit_vector);
    } else if h == 12 {
        assert(p2(20) == 1048576) by (compute_only);
        assert(p2(19) == 524288) by (compute_only);
        assert(a < 0x1_0000_0000 ==> (((a & 4294443008u64) == 524288u64) <==> (524288u64 <= a && a < 1048576u64))) by (bit_vector);
        assert(a < 0x1_0000_0000 ==> (((a & 4294443008u64) == 4293918720u64) <==> (524288u64 <= (a ^ 0xFFFF_FFFFu64) && (a ^ 0xFFFF_FFFFu64) < 1048576u64))) by (bit_vector);
    } else if h == 13 {
        assert(p2(19) == 524288) by (compute_only);
        assert(p2(18) == 262144) by (compute_only);
        assert(a < 0x1_0000_0000 ==> (((a & 4294705152u64) == 262144u64) <==> (262144u64 <= a && a < 524288u64))) by (bit_vector);
        assert(a < 0x1_0000_0000 ==> (((a & 4294705152u64) == 4294443008u64) <==> (262144u64 <= (a ^ 0xFFFF_FFFFu64) && (a ^ 0xFFFF_FFFFu64) < 524288u64))) by (bit_vector);
    } else if h == 14 {
        assert(p2(18) == 262144) by (compute_only);
        assert(p2(17) == 131072) by (compute_only);
        assert(a < 0x1_0000_0000 ==> (((a & 4294836224u64) == 131072u64) <==> (131072u64 <= a && a < 262144u64))) by (bit_vector);
        assert(a < 0x1_0000_0000 ==> (((a & 4294836224u64) == 4294705152u64) <==> (131072u64 <= (a ^ 0xFFFF_FFFFu64) && (a ^ 0xFFFF_FFFFu64) < 262144u64))) by (bit_vector);
    } else if h == 15 {
        assert(p2(17) == 131072) by (compute_only);
        assert(p2(16) == 65536) by (compute_only);
        assert(a < 0x1_0000_0000 ==> (((a & 4294901760u64) == 65536u64) <==> (65536u64 <= a && a < 131072u64))) by (bit_vector);
        assert(a < 0x1_0000_0000 ==> (((a & 4294901760u64) == 4294836224u64) <==> (65536u64 <= (a ^ 0xFFFF_FFFFu64) && (a ^ 0xFFFF_FFFFu64) < 131072u64))) by (bit_vector);
    } else if h == 16 {
        assert(p2(16) == 65536) by (compute_only);
        assert(p2(15) == 32768) by (compute_only);
        assert(a < 0x1_0000_0000 ==> (((a & 4294934528u64) == 32768u64) <==> (32768u64 <= a && a < 65536u64))) by (bit_vector);
        assert(a < 0x1_0000_0000 ==> (((a & 4294934528u64) == 4294901760u64) <==> (32768u64 <= (a ^ 0xFFFF_FFFFu64) && (a ^ 0xFFFF_FFFFu64) < 65536u64))) by (bit_vector);
    } else if h == 17 {
        assert(p2(15) == 32768) by (compute_only);
        assert(p2(14) == 16384) by (compute_only);
        assert(a < 0x1_0000_0000 ==> (((a & 4294950912u64) == 16384u64) <==> (16384u64 <= a && a < 32768u64))) by (bit_vector);
        assert(a < 0x1_0000_0000 ==> (((a & 4294950912u64) == 4294934528u64) <==> (16384u64 <= (a ^ 0xFFFF_FFFFu64) && (a ^ 0xFFFF_FFFFu64) < 32768u64))) by (bit_vector);
    } else if h == 18 {
        assert(p2(14) == 16384) by (compute_only);
        assert(p2(13) == 8192) by (compute_only);
        assert(a < 0x1_0000_0000 ==> (((a & 4294959104u64) == 8192u64) <==> (8192u64 <= a && a < 16384u64))) by (bit_vector);
        assert(a < 0x1_0000_0000 ==> (((a & 4294959104u64) == 4294950912u64) <==> (8192u64 <= (a ^ 0xFFFF_FFFFu64) && (a ^ 0xFFFF_FFFFu64) < 16384u64))) by (bit_vector);
    } else if h == 19 {
        assert(p2(13) == 8192) by (compute_only);
        assert(p2(12) == 4096) by (compute_only);
        assert(a < 0x1_0000_0000 ==> (((a & 4294963200u64) == 4096u64) <==> (4096u64 <= a && a < 8192u64))) by (bit_vector);
        assert(a < 0x1_0000_0000 ==> (((a & 4294963200u64) == 4294959104u64) <==> (4096u64 <= (a ^ 0xFFFF_FFFFu64) && (a ^ 0xFFFF_FFFFu64) < 8192u64))) by (bit_vector);
    } else if h == 20 {
        assert(p2(12) == 4096) by (compute_only);
        assert(p2(11) == 2048) by (compute_only);
        assert(a < 0x1_0000_0000 ==> (((a & 4294965248u64) == 2048u64) <==> (2048u64 <= a && a < 4096u64))) by (bit_vector);
        assert(a < 0x1_0000_0000 ==> (((a & 4294965248u64) == 4294963200u64) <==> (2048u64 <= (a ^ 0xFFFF_FFFFu64) && (a ^ 0xFFFF_FFFFu64) < 4096u64))) by (bit_vector);
    } else if h == 21 {
        assert(p2(11) == 2048) by (compute_only);
        assert(p2(10) == 1024) by (compute_only);
        assert(a < 0x1_0000_0000 ==> (((a & 4294966272u64) == 1024u64) <==> (1024u64 <= a && a < 2048u64))) by (bit_vector);
        assert(a < 0x1_0000_0000 ==> (((a & 4294966272u64) == 4294965248u64) <==> (1024u64 <= (a ^ 0xFFFF_FFFFu64) && (a ^ 0xFFFF_FFFFu64) < 2048u64))) by (bit_vector);
    } else if h == 22 {
        assert(p2(10) == 1024) by (compute_only);
        assert(p2(9) == 512) by (compute_only);
        assert(a < 0x1_0000_0000 ==> (((a & 4294966784u64) == 512u64) <==> (512u64 <= a && a < 1024u64))) by (bit_vector);
        assert(a < 0x1_0000_0000 ==> (((a & 4294966784u64) == 4294966272u64) <==> (512u64 <= (a ^ 0xFFFF_FFFFu64) && (a ^ 0xFFFF_FFFFu64) < 1024u64))) by (bit_vector);
    } else if h == 23 {
        assert(p2(9) == 512) by (compute_only);
        assert(p2(8) == 256) by (compute_only);
        assert(a < 0x1_0000_0000 ==> (((a & 4294967040u64) == 256u64) <==> (256u64 <= a && a < 512u64))) by (bit_vector);
        assert(a < 0x1_0000_0000 ==> (((a & 4294967040u64) == 4294966784u64) <==> (256u64 <= (a ^ 0xFFFF_FFFFu64) && (a ^ 0xFFFF_FFFFu64) < 512u64))) by (bit_vector);
    } else if h == 24 {
        assert(p2(8) == 256) by (compute_only);
        assert(p2(7) == 128) by (compute_only);
        assert(a < 0x1_0000_0000 ==> (((a & 4294967168u64) == 128u64) <==> (128u64 <= a && a < 256u64))) by (bit_vector);
        assert(a < 0x1_0000_0000 ==> (((a & 4294967168u64) == 4294967040u64) <==> (128u64 <= (a ^ 0xFFFF_FFFFu64) && (a ^ 0xFFFF_FFFFu64) < 256u64))) by (bit_vector);
    } else if h == 25 {
        assert(p2(7) == 128) by (compute_only);
        assert(p2(6) == 64) by (compute_only);
        assert(a < 0x1_0000_0000 ==> (((a & 4294967232u64) == 64u64) <==> (64u64 <= a && a < 128u64))) by (bit_vector);
        assert(a < 0x1_0000_0000 ==> (((a & 4294967232u64) == 4294967168u64) <==> (64u64 <= (a ^ 0xFFFF_FFFFu64) && (a ^ 0xFFFF_FFFFu64) < 128u64))) by (bit_vector);
    } else if h == 26 {
        assert(p2(6) == 64) by (compute_only);
        assert(p2(5) == 32) by (compute_only);
        assert(a < 0x1_0000_0000 ==> (((a & 4294967264u64) == 32u64) <==> (32u64 <= a && a < 64u64))) by (bit_vector);
        assert(a < 0x1_0000_0000 ==> (((a & 4294967264u64) == 4294967232u64) <==> (32u64 <= (a ^ 0xFFFF_FFFFu64) && (a ^ 0xFFFF_FFFFu64) < 64u64))) by (bit_vector);
    } else if h == 27 {
        assert(p2(5) == 32) by (compute_only);
        assert(p2(4) == 16) by (compute_only);
        assert(a < 0x1_0000_0000 ==> (((a & 4294967280u64) == 16u64) <==> (16u64 <= a && a < 32u64))) by (bit_vector);
        assert(a < 0x1_0000_0000 ==> (((a & 4294967280u64) == 4294967264u64) <==> (16u64 <= (a ^ 0xFFFF_FFFFu64) && (a ^ 0xFFFF_FFFFu64) < 32u64))) by (bit_vector);
    } else if h == 28 {
        assert(p2(4) == 16) by (compute_only);
        assert(p2(3) == 8) by (compute_only);
        assert(a < 0x1_0000_0000 ==> (((a & 4294967288u64) == 8u64) <==> (8u64 <= a && a < 16u64))) by (bit_vector);
        assert(a < 0x1_0000_0000 ==> (((a & 4294967288u64) == 4294967280u64) <==> (8u64 <= (a ^ 0xFFFF_FFFFu64) && (a ^ 0xFFFF_FFFFu64) < 16u64))) by (bit_vector);
    } else if h == 29 {
        assert(p2(3) == 8) by (compute_only);
        assert(p2(2) == 4) by (compute_only);
        assert(a < 0x1_0000_0000 ==> (((a & 4294967292u64) == 4u64) <==> (4u64 <= a && a < 8u64))) by (bit_vector);
        assert(a < 0x1_0000_0000 ==> (((a & 4294967292u64) == 4294967288u64) <==> (4u64 <= (a ^ 0xFFFF_FFFFu64) && (a ^ 0xFFFF_FFFFu64) < 8u64))) by (bit_vector);
    } else if h == 30 {
        assert(p2(2) == 4) by (compute_only);
        assert(p2(1) == 2) by (compute_only);
        assert(a < 0x1_0000_0000 ==> (((a & 4294967294u64) == 2u64) <==> (2u64 <= a && a < 4u64))) by (bit_vector);
        assert(a < 0x1_0000_0000 ==> (((a & 4294967294u64) == 4294967292u64) <==> (2u64 <= (a ^ 0xFFFF_FFFFu64) && (a ^ 0xFFFF_FFFFu64) < 4u64))) by (bit_vector);
    } else if h == 31 {
        assert(p2(1) == 2) by (compute_only);
        assert(p2(0) == 1) by (compute_only);
        assert(a < 0x1_0000_0000 ==> (((a & 4294967295u64) == 1u64) <==> (1u64 <= a && a < 2u64))) by (bit_vector);
        assert(a < 0x1_0000_0000 ==> (((a & 4294967295u64) == 4294967294u64) <==> (1u64 <= (a ^ 0xFFFF_FFFFu64) && (a ^ 0xFFFF_FFFFu64) < 2u64))) by (bit_vector);
    } else if h == 32 {
        assert(p2(0) == 1) by (compute_only);
        assert(a < 0x1_0000_0000 ==> (((a & 4294967295u64) == 0u64) <==> (a == 0u64))) by (bit_vector);
        assert(a < 0x1_0000_0000 ==> (((a & 4294967295u64) == 4294967295u64) <==> (a == 0xFFFF_FFFFu64))) by (bit_vector);
    }
}
pub proof fn lemma_ctz_mask(a: u64, h: int)
    requires a < 0x1_0000_0000, 0 <= h <= 32
    ensures 0 <= ctz_mask(h) < 0x1_0000_0000, 0 <= ctz_bit(h) < 0x1_0000_0000,
        ((a & (ctz_mask(h) as u64)) == ctz_bit(h) as u64) <==> ctz_is(a as int, h),
        // trailing ones
        ((a & (ctz_mask(h) as u64)) == (p2(h) - 1) as u64) <==> ctz_is(0xFFFF_FFFF - a as int, h),
{
    assert(a < 0x1_0000_0000 ==> (a ^ 0xFFFF_FFFFu64) == sub(0xFFFF_FFFFu64, a)) by (bit_vector);
    assert((a ^ 0xFFFF_FFFFu64) as int == 0xFFFF_FFFF - a as int);
    if h == 0 {
        assert(p2(0) == 1) by (compute_only);
        assert(p2(1) == 2) by (compute_only);
        assert(a < 0x1_0000_0000 ==> (((a & 1u64) == 1u64) <==> (a % 2u64 == 1u64))) by (bit_vector);
        assert(a < 0x1_0000_0000 ==> (((a & 1u64) == 0u64) <==> ((a ^ 0xFFFF_FFFFu64) % 2u64 == 1u64))) by (bit_vector);
    } else if h == 1 {
        assert(p2(1) == 2) by (compute_only);
        assert(p2(2) == 4) by (compute_only);
        assert(a < 0x1_0000_0000 ==> (((a & 3u64) == 2u64) <==> (a % 4u64 == 2u64))) by (bit_vector);
        assert(a < 0x1_0000_0000 ==> (((a & 3u64) == 1u64) <==> ((a ^ 0xFFFF_FFFFu64) % 4u64 == 2u64))) by (bit_vector);
    } else if h == 2 {
        assert(p2(2) == 4) by (compute_only);
        assert(p2(3) == 8) by (compute_only);
        assert(a < 0x1_0000_0000 ==> (((a & 7u64) == 4u64) <==> (a % 8u64 == 4u64))) by (bit_vector);
        assert(a < 0x1_0000_0000 ==> (((a & 7u64) == 3u64) <==> ((a ^ 0xFFFF_FFFFu64) % 8u64 == 4u64))) by (bit_vector);
    } else if h == 3 {
        assert(p2(3) == 8) by (compute_only);
        assert(p2(4) == 16) by (compute_only);
        assert(a < 0x1_0000_0000 ==> (((a & 15u64) == 8u64) <==> (a % 16u64 == 8u64))) by (bit_vector);
        assert(a < 0x1_0000_0000 ==> (((a & 15u64) == 7u64) <==> ((a ^ 0xFFFF_FFFFu64) % 16u64 == 8u64))) by (bit_vector);
    } else if h == 4 {
        assert(p2(4) == 16) by (compute_only);
        assert(p2(5) == 32) by (compute_only);
        assert(a < 0x1_0000_0000 ==> (((a & 31u64) == 16u64) <==> (a % 32u64 == 16u64))) by (bit_vector);
        assert(a < 0x1_0000_0000 ==> (((a & 31u64) == 15u64) <==> ((a ^ 0xFFFF_FFFFu64) % 32u64 == 16u64))) by (bit_vector);
    } else if h == 5 {
        assert(p2(5) == 32) by (compute_only);
        assert(p2(6) == 64) by (compute_only);
        assert(a < 0x1_0000_0000 ==> (((a & 63u64) == 32u64) <==> (a % 64u64 == 32u64))) by (bit_vector);
        assert(a < 0x1_0000_0000 ==> (((a & 63u64) == 31u64) <==> ((a ^ 0xFFFF_FFFFu64) % 64u64 == 32u64))) by (bit_vector);
    } else if h == 6 {
        assert(p2(6) == 64) by (compute_only);
        assert(p2(7) == 128) by (compute_only);
        assert(a < 0x1_0000_0000 ==> (((a & 127u64) == 64u64) <==> (a % 128u64 == 64u64))) by (bit_vector);
        assert(a < 0x1_0000_0000 ==> (((a & 127u64) == 63u64) <==> ((a ^ 0xFFFF_FFFFu64) % 128u64 == 64u64))) by (bit_vector);
    } else if h == 7 {
        assert(p2(7) == 128) by (compute_only);
        assert(p2(8) == 256) by (compute_only);
        assert(a < 0x1_0000_0000 ==> (((a & 255u64) == 128u64) <==> (a % 256u64 == 128u64))) by (bit_vector);
        assert(a < 0x1_0000_0000 ==> (((a & 255u64) == 127u64) <==> ((a ^ 0xFFFF_FFFFu64) % 256u64 == 128u64))) by (bit_vector);
    } else if h == 8 {
        assert(p2(8) == 256) by (compute_only);
        assert(p2(9) == 512) by (compute_only);
        assert(a < 0x1_0000_0000 ==> (((a & 511u64) == 256u64) <==> (a % 512u64 == 256u64))) by (bit_vector);
        assert(a < 0x1_0000_0000 ==> (((a & 511u64) == 255u64) <==> ((a ^ 0xFFFF_FFFFu64) % 512u64 == 256u64))) by (bit_vector);
    } else if h == 9 {
        assert(p2(9) == 512) by (compute_only);
        assert(p2(10) == 1024) by (compute_only);
        assert(a < 0x1_0000_0000 ==> (((a & 1023u64) == 512u64) <==> (a % 1024u64 == 512u64))) by (bit_vector);
        assert(a < 0x1_0000_0000 ==> (((a & 1023u64) == 511u64) <==> ((a ^ 0xFFFF_FFFFu64) % 1024u64 == 512u64))) by (bit_vector);
    } else if h == 10 {
        assert(p2(10) == 1024) by (compute_only);
        assert(p2(11) == 2048) by (compute_only);
        assert(a < 0x1_0000_0000 ==> (((a & 2047u64) == 1024u64) <==> (a % 2048u64 == 1024u64))) by (bit_vector);
        assert(a < 0x1_0000_0000 ==> (((a & 2047u64) == 1023u64) <==> ((a ^ 0xFFFF_FFFFu64) % 2048u64 == 1024u64))) by (bit_vector);
    } else if h == 11 {
        assert(p2(11) == 2048) by (compute_only);
        assert(p2(12) == 4096) by (compute_only);
        assert(a < 0x1_0000_0000 ==> (((a & 4095u64) == 2048u64) <==> (a % 4096u64 == 2048u64))) by (bit_vector);
        assert(a < 0x1_0000_0000 ==> (((a & 4095u64) == 2047u64) <==> ((a ^ 0xFFFF_FFFFu64) % 4096u64 == 2048u64))) by (bit_vector);
    } else if h == 12 {
        assert(p2(12) == 4096) by (compute_only);
        assert(p2(13) == 8192) by (compute_only);
        assert(a < 0x1_0000_0000 ==> (((a & 8191u64) == 4096u64) <==> (a % 8192u64 == 4096u64))) by (bit_vector);
        assert(a < 0x1_0000_0000 ==> (((a & 8191u64) == 4095u64) <==> ((a ^ 0xFFFF_FFFFu64) % 8192u64 == 4096u64))) by (bit_vector);
    } else if h == 13 {
        assert(p2(13) == 8192) by (compute_only);
        assert(p2(14) == 16384) by (compute_only);
        assert(a < 0x1_0000_0000 ==> (((a & 16383u64) == 8192u64) <==> (a % 16384u64 == 8192u64))) by (bit_vector);
        assert(a < 0x1_0000_0000 ==> (((a & 16383u64) == 8191u64) <==> ((a ^ 0xFFFF_FFFFu64) % 16384u64 == 8192u64))) by (bit_vector);
    } else if h == 14 {
        assert(p2(14) == 16384) by (compute_only);
        assert(p2(15) == 32768) by (compute_only);
        assert(a < 0x1_0000_0000 ==> (((a & 32767u64) == 16384u64) <==> (a % 32768u64 == 16384u64))) by (bit_vector);
        assert(a < 0x1_0000_0000 ==> (((a & 32767u64) == 16383u64) <==> ((a ^ 0xFFFF_FFFFu64) % 32768u64 == 16384u64))) by (bit_vector);
    } else if h == 15 {
        assert(p2(15) == 32768) by (compute_only);
        assert(p2(16) == 65536) by (compute_only);
        assert(a < 0x1_0000_0000 ==> (((a & 65535u64) == 32768u64) <==> (a % 65536u64 == 32768u64))) by (bit_vector);
        assert(a < 0x1_0000_0000 ==> (((a & 65535u64) == 32767u64) <==> ((a ^ 0xFFFF_FFFFu64) % 65536u64 == 32768u64))) by (bit_vector);
    } else if h == 16 {
        assert(p2(16) == 65536) by (compute_only);
        assert(p2(17) == 131072) by (compute_only);
        assert(a < 0x1_0000_0000 ==> (((a & 131071u64) == 65536u64) <==> (a % 131072u64 == 65536u64))) by (bit_vector);
        assert(a < 0x1_0000_0000 ==> (((a & 131071u64) == 65535u64) <==> ((a ^ 0xFFFF_FFFFu64) % 131072u64 == 65536u64))) by (bit_vector);
    } else if h == 17 {
        assert(p2(17) == 131072) by (compute_only);
        assert(p2(18) == 262144) by (compute_only);
        assert(a < 0x1_0000_0000 ==> (((a & 262143u64) == 131072u64) <==> (a % 262144u64 == 131072u64))) by (bit_vector);
        assert(a < 0x1_0000_0000 ==> (((a & 262143u64) == 131071u64) <==> ((a ^ 0xFFFF_FFFFu64) % 262144u64 == 131072u64))) by (bit_vector);
    } else if h == 18 {
        assert(p2(18) == 262144) by (compute_only);
        assert(p2(19) == 524288) by (compute_only);
        assert(a < 0x1_0000_0000 ==> (((a & 524287u64) == 262144u64) <==> (a % 524288u64 == 262144u64))) by (bit_vector);
        assert(a < 0x1_0000_0000 ==> (((a & 524287u64) == 262143u64) <==> ((a ^ 0xFFFF_FFFFu64) % 524288u64 == 262144u64))) by (bit_vector);
    } else if h == 19 {
        assert(p2(19) == 524288) by (compute_only);
        assert(p2(20) == 1048576) by (compute_only);
        assert(a < 0x1_0000_0000 ==> (((a & 1048575u64) == 524288u64) <==> (a % 1048576u64 == 524288u64))) by (bit_vector);
        assert(a < 0x1_0000_0000 ==> (((a & 1048575u64) == 524287u64) <==> ((a ^ 0xFFFF_FFFFu64) % 1048576u64 == 524288u64))) by (bit_vector);
    } else if h == 20 {
        assert(p2(20) == 1048576) by (compute_only);
        assert(p2(21) == 2097152) by (compute_only);
        assert(a < 0x1_0000_0000 ==> (((a & 2097151u64) == 1048576u64) <==> (a % 2097152u64 == 1048576u64))) by (bit_vector);
        assert(a < 0x1_0000_0000 ==> (((a & 2097151u64) == 1048575u64) <==> ((a ^ 0xFFFF_FFFFu64) % 2097152u64 == 1048576u64))) by (bit_vector);
    } else if h == 21 {
        assert(p2(21) == 2097152) by (compute_only);
        assert(p2(22) == 4194304) by (compute_only);
        assert(a < 0x1_0000_0000 ==> (((a & 4194303u64) == 2097152u64) <==> (a % 4194304u64 == 2097152u64))) by (bit_vector);
        assert(a < 0x1_0000_0000 ==> (((a & 4194303u64) == 2097151u64) <==> ((a ^ 0xFFFF_FFFFu64) % 4194304u64 == 2097152u64))) by (bit_vector);
    } else if h == 22 {
        assert(p2(22) == 4194304) by (compute_only);
        assert(p2(23) == 8388608) by (compute_only);
        assert(a < 0x1_0000_0000 ==> (((a & 8388607u64) == 4194304u64) <==> (a % 8388608u64 == 4194304u64))) by (bit_vector);
        assert(a < 0x1_0000_0000 ==> (((a & 8388607u64) == 4194303u64) <==> ((a ^ 0xFFFF_FFFFu64) % 8388608u64 == 4194304u64))) by (bit_vector);
    } else if h == 23 {
        assert(p2(23) == 8388608) by (compute_only);
        assert(p2(24) == 16777216) by (compute_only);
        assert(a < 0x1_0000_0000 ==> (((a & 16777215u64) == 8388608u64) <==> (a % 16777216u64 == 8388608u64))) by (bit_vector);
        assert(a < 0x1_0000_0000 ==> (((a & 16777215u64) == 8388607u64) <==> ((a ^ 0xFFFF_FFFFu64) % 16777216u64 == 8388608u64))) by (bit_vector);
    } else if h == 24 {
        assert(p2(24) == 16777216) by (compute_only);
        assert(p2(25) == 33554432) by (compute_only);
        assert(a < 0x1_0000_0000 ==> (((a & 33554431u64) == 16777216u64) <==> (a % 33554432u64 == 16777216u64))) by (bit_vector);
        assert(a < 0x1_0000_0000 ==> (((a & 33554431u64) == 16777215u64) <==> ((a ^ 0xFFFF_FFFFu64) % 33554432u64 == 16777216u64))) by (bit_vector);
    } else if h == 25 {
        assert(p2(25) == 33554432) by (compute_only);
        assert(p2(26) == 67108864) by (compute_only);
        assert(a < 0x1_0000_0000 ==> (((a & 67108863u64) == 33554432u64) <==> (a % 67108864u64 == 33554432u64))) by (bit_vector);
        assert(a < 0x1_0000_0000 ==> (((a & 67108863u64) == 33554431u64) <==> ((a ^ 0xFFFF_FFFFu64) % 67108864u64 == 33554432u64))) by (bit_vector);
    } else if h == 26 {
        assert(p2(26) == 67108864) by (compute_only);
        assert(p2(27) == 134217728) by (compute_only);
        assert(a < 0x1_0000_0000 ==> (((a & 134217727u64) == 67108864u64) <==> (a % 134217728u64 == 67108864u64))) by (bit_vector);
        assert(a < 0x1_0000_0000 ==> (((a & 134217727u64) == 67108863u64) <==> ((a ^ 0xFFFF_FFFFu64) % 134217728u64 == 67108864u64))) by (bit_vector);
    } else if h == 27 {
        assert(p2(27) == 134217728) by (compute_only);
        assert(p2(28) == 268435456) by (compute_only);
        assert(a < 0x1_0000_0000 ==> (((a & 268435455u64) == 134217728u64) <==> (a % 268435456u64 == 134217728u64))) by (bit_vector);
        assert(a < 0x1_0000_0000 ==> (((a & 268435455u64) == 134217727u64) <==> ((a ^ 0xFFFF_FFFFu64) % 268435456u64 == 134217728u64))) by (bit_vector);
    } else if h == 28 {
        assert(p2(28) == 268435456) by (compute_only);
        assert(p2(29) == 536870912) by (compute_only);
        assert(a < 0x1_0000_0000 ==> (((a & 536870911u64) == 268435456u64) <==> (a % 536870912u64 == 268435456u64))) by (bit_vector);
        assert(a < 0x1_0000_0000 ==> (((a & 536870911u64) == 268435455u64) <==> ((a ^ 0xFFFF_FFFFu64) % 536870912u64 == 268435456u64))) by (bit_vector);
    } else if h == 29 {
        assert(p2(29) == 536870912) by (compute_only);
        assert(p2(30) == 1073741824) by (compute_only);
        assert(a < 0x1_0000_0000 ==> (((a & 1073741823u64) == 536870912u64) <==> (a % 1073741824u64 == 536870912u64))) by (bit_vector);
        assert(a < 0x1_0000_0000 ==> (((a & 1073741823u64) == 536870911u64) <==> ((a ^ 0xFFFF_FFFFu64) % 1073741824u64 == 536870912u64))) by (bit_vector);
    } else if h == 30 {
        assert(p2(30) == 1073741824) by (compute_only);
        assert(p2(31) == 2147483648) by (compute_only);
        assert(a < 0x1_0000_0000 ==> (((a & 2147483647u64) == 1073741824u64) <==> (a % 2147483648u64 == 1073741824u64))) by (bit_vector);
        assert(a < 0x1_0000_0000 ==> (((a & 2147483647u64) == 1073741823u64) <==> ((a ^ 0xFFFF_FFFFu64) % 2147483648u64 == 1073741824u64))) by (bit_vector);
    } else if h == 31 {
        assert(p2(31) == 2147483648) by (compute_only);
        assert(p2(32) == 4294967296) by (compute_only);
        assert(a < 0x1_0000_0000 ==> (((a & 4294967295u64) == 2147483648u64) <==> (a % 4294967296u64 == 2147483648u64))) by (bit_vector);
        assert(a < 0x1_0000_0000 ==> (((a & 4294967295u64) == 2147483647u64) <==> ((a ^ 0xFFFF_FFFFu64) % 4294967296u64 == 2147483648u64))) by (bit_vector);
    } else if h == 32 {
        assert(p2(32) == 4294967296) by (compute_only);
        assert(a < 0x1_0000_0000 ==> (((a & 4294967295u64) == 0u64) <==> (a == 0u64))) by (bit_vector);
        assert(a < 0x1_0000_0000 ==> (((a & 4294967295u64) == 4294967295u64) <==> (a == 0xFFFF_FFFFu64))) by (bit_vector);
    }
}
// ---- hand-written part: the field arithmetic around the masks, for EVERY hint value -----------------
/// u32clz / u32clo: exponent e = 32 - hint (in the field), p = 2^e, mask = 2^32 - p, bit = p / 2
pub proof fn lemma_clz_all(a: Felt, hint: Felt)
    requires is_u32(a)
    ensures ({
        let h = hint.val();
        let e = fadd(32, fneg(h));
        let p = p2(e);
        let mask0 = fadd(0x1_0000_0000, fneg(p));
        let bit = p / 2;
        let m = fadd(mask0, bit);
        &&& (h <= 32 ==> e == 32 - h && 1 <= p <= 0x1_0000_0000 && mask0 == 0x1_0000_0000 - p && bit == clz_bit(h)
                && m == clz_mask(h) && 0 <= m < 0x1_0000_0000 && 0 <= bit < 0x1_0000_0000
                && (((m as u64) & (a.val() as u64)) as int) < 0x1_0000_0000
                && ((((m as u64) & (a.val() as u64)) as int == bit) <==> clz_is(a.val(), h))
                && ((((m as u64) & (a.val() as u64)) as int == mask0) <==> clz_is(0xFFFF_FFFF - a.val(), h)))
        &&& (h > 32 ==> !clz_is(a.val(), h) && !clz_is(0xFFFF_FFFF - a.val(), h))
        &&& ((h > 32 && e <= 63) ==> 33 <= e && p < P() && bit < P() && mask0 < P() && 0x1_0000_0000 <= bit
                && (m >= 0x1_0000_0000 || (m == 0 && ((m as u64) & (a.val() as u64)) == 0)))
    })
{
    broadcast use felt_model::felt_axioms;
    let h = hint.val();
    let e = fadd(32, fneg(h));
    assert(0 <= h < P());
    if h <= 32 {
        assert(e == 32 - h);
        lemma_p2_bits(e);
        lemma_p2_split(e);
        lemma_p2_consts();
        let p = p2(e);
        if e == 32 { assert(p == 0x1_0000_0000); } else { assert(p <= 0x8000_0000); }
        lemma_clz_mask(a.val() as u64, h);
        let au = a.val() as u64; let mu = clz_mask(h) as u64;
        assert((au & mu) == (mu & au)) by (bit_vector);
        assert(mu < 0x1_0000_0000 ==> (mu & au) < 0x1_0000_0000) by (bit_vector);
        assert(fneg(p) == P() - p);
        assert(fadd(0x1_0000_0000, fneg(p)) == 0x1_0000_0000 - p);
        assert(clz_mask(h) == 0x1_0000_0000 - p + p / 2);
        assert(fadd(0x1_0000_0000 - p, p / 2) == 0x1_0000_0000 - p + p / 2);
    } else {
        if e <= 63 {
            // h >= P - 31
            assert(e == 32 - h + P());
            assert(e >= 33) by { assert(h <= P() - 1); }
            lemma_p2_bits(e);
            lemma_p2_split(e);
            lemma_p2_consts();
            let p = p2(e);
            lemma_p2_add(33, e - 33);
            lemma_p2_add(e - 33, 0);
            assert(p2(33) == 0x2_0000_0000) by (compute_only);
            assert(p >= 0x2_0000_0000) by (nonlinear_arith) requires p == p2(33) * p2(e - 33), p2(33) == 0x2_0000_0000, p2(e - 33) >= 1;
            assert(p <= 0x8000_0000_0000_0000);
            assert(fneg(p) == P() - p);
            let mask0 = fadd(0x1_0000_0000, fneg(p));
            assert(mask0 == 0x1_0000_0000 + P() - p);
            let bit = p / 2;
            assert(p == 2 * bit) by { lemma_p2_add(1, e - 1); assert(p2(1) == 2) by (compute_only); }
            let au = a.val() as u64;
            assert((0u64 & au) == 0) by (bit_vector);
            if e == 33 { assert(fadd(mask0, bit) == 0); } else {
                lemma_p2_add(34, e - 34); lemma_p2_add(e - 34, 0);
                assert(p2(34) == 0x4_0000_0000) by (compute_only);
                assert(p >= 0x4_0000_0000) by (nonlinear_arith) requires p == p2(34) * p2(e - 34), p2(34) == 0x4_0000_0000, p2(e - 34) >= 1;
                assert(fadd(mask0, bit) == 0x1_0000_0000 + P() - p + bit);
            }
        }
    }
}
/// u32ctz / u32cto: p = 2^hint, low = p - 1, bit = p mod 2^32, m = low + bit
pub proof fn lemma_ctz_all(a: Felt, hint: Felt)
    requires is_u32(a)
    ensures ({
        let h = hint.val();
        let p = p2(h);
        let low = fadd(p, fneg(1));
        let bit = p % 0x1_0000_0000;
        let m = fadd(low, bit);
        &&& (h <= 63 ==> 1 <= p < P() && low == p - 1 && 0 <= bit < 0x1_0000_0000 && m == low + bit)
        &&& (h <= 32 ==> bit == ctz_bit(h) && m == ctz_mask(h) && 0 <= m < 0x1_0000_0000
                && (((m as u64) & (a.val() as u64)) as int) < 0x1_0000_0000
                && ((((m as u64) & (a.val() as u64)) as int == bit) <==> ctz_is(a.val(), h))
                && ((((m as u64) & (a.val() as u64)) as int == low) <==> ctz_is(0xFFFF_FFFF - a.val(), h)))
        &&& (h > 32 ==> !ctz_is(a.val(), h) && !ctz_is(0xFFFF_FFFF - a.val(), h))
        &&& ((32 < h && h <= 63) ==> m >= 0x1_0000_0000)
    })
{
    broadcast use felt_model::felt_axioms;
    let h = hint.val();
    if h <= 63 {
        lemma_p2_bits(h);
        lemma_p2_split(h);
        lemma_p2_consts();
        let p = p2(h);
        assert(fneg(1) == P() - 1);
        assert(fadd(p, fneg(1)) == p - 1);
        if h <= 32 {
            if h == 32 { assert(p == 0x1_0000_0000); } else { assert(p <= 0x8000_0000); }
            lemma_ctz_mask(a.val() as u64, h);
            let au = a.val() as u64; let mu = ctz_mask(h) as u64;
            assert((au & mu) == (mu & au)) by (bit_vector);
            assert(mu < 0x1_0000_0000 ==> (mu & au) < 0x1_0000_0000) by (bit_vector);
            assert(fadd(p - 1, p % 0x1_0000_0000) == p - 1 + p % 0x1_0000_0000);
        } else {
            assert(p % 0x1_0000_0000 == 0);
            lemma_p2_add(33, h - 33); lemma_p2_add(h - 33, 0);
            assert(p2(33) == 0x2_0000_0000) by (compute_only);
            assert(p >= 0x2_0000_0000) by (nonlinear_arith) requires p == p2(33) * p2(h - 33), p2(33) == 0x2_0000_0000, p2(h - 33) >= 1;
            assert(fadd(p - 1, 0) == p - 1);
        }
    }
}
// ---- ilog2 (after fix 2828082): bit k set and nothing above it  <==>  2^k <= x < 2^(k+1)  (32 generated cases)
pub proof fn lemma_ilog_mask(x: u64, k: int)
    requires x < 0x1_0000_0000, 0 <= k <= 31
    ensures 1 <= p2(k) <= 0x8000_0000, 2 * p2(k) - 1 < 0x1_0000_0000,
        (((p2(k) as u64) & x) == p2(k) as u64 && (((2 * p2(k) - 1) as u64) & x) == x) <==> (p2(k) <= x as int && (x as int) < 2 * p2(k)),
        (((p2(k) as u64) & x) as int) < 0x1_0000_0000, ((((2 * p2(k) - 1) as u64) & x) as int) < 0x1_0000_0000,
{
    if k == 0 {
        assert(p2(0) == 1) by (compute_only);
        assert(x < 0x1_0000_0000 ==> ((((1u64 & x) == 1u64) && ((1u64 & x) == x)) <==> (1u64 <= x && x < 2u64))) by (bit_vector);
        assert((1u64 & x) < 0x1_0000_0000 && (1u64 & x) < 0x1_0000_0000) by (bit_vector);
    } else if k == 1 {
        assert(p2(1) == 2) by (compute_only);
        assert(x < 0x1_0000_0000 ==> ((((2u64 & x) == 2u64) && ((3u64 & x) == x)) <==> (2u64 <= x && x < 4u64))) by (bit_vector);
        assert((2u64 & x) < 0x1_0000_0000 && (3u64 & x) < 0x1_0000_0000) by (bit_vector);
    } else if k == 2 {
        assert(p2(2) == 4) by (compute_only);
        assert(x < 0x1_0000_0000 ==> ((((4u64 & x) == 4u64) && ((7u64 & x) == x)) <==> (4u64 <= x && x < 8u64))) by (bit_vector);
        assert((4u64 & x) < 0x1_0000_0000 && (7u64 & x) < 0x1_0000_0000) by (bit_vector);
    } else if k == 3 {
        assert(p2(3) == 8) by (compute_only);
        assert(x < 0x1_0000_0000 ==> ((((8u64 & x) == 8u64) && ((15u64 & x) == x)) <==> (8u64 <= x && x < 16u64))) by (bit_vector);
        assert((8u64 & x) < 0x1_0000_0000 && (15u64 & x) < 0x1_0000_0000) by (bit_vector);
    } else if k == 4 {
        assert(p2(4) == 16) by (compute_only);
        assert(x < 0x1_0000_0000 ==> ((((16u64 & x) == 16u64) && ((31u64 & x) == x)) <==> (16u64 <= x && x < 32u64))) by (bit_vector);
        assert((16u64 & x) < 0x1_0000_0000 && (31u64 & x) < 0x1_0000_0000) by (bit_vector);
    } else if k == 5 {
        assert(p2(5) == 32) by (compute_only);
        assert(x < 0x1_0000_0000 ==> ((((32u64 & x) == 32u64) && ((63u64 & x) == x)) <==> (32u64 <= x && x < 64u64))) by (bit_vector);
        assert((32u64 & x) < 0x1_0000_0000 && (63u64 & x) < 0x1_0000_0000) by (bit_vector);
    } else if k == 6 {
        assert(p2(6) == 64) by (compute_only);
        assert(x < 0x1_0000_0000 ==> ((((64u64 & x) == 64u64) && ((127u64 & x) == x)) <==> (64u64 <= x && x < 128u64))) by (bit_vector);
        assert((64u64 & x) < 0x1_0000_0000 && (127u64 & x) < 0x1_0000_0000) by (bit_vector);
    } else if k == 7 {
        assert(p2(7) == 128) by (compute_only);
        assert(x < 0x1_0000_0000 ==> ((((128u64 & x) == 128u64) && ((255u64 & x) == x)) <==> (128u64 <= x && x < 256u64))) by (bit_vector);
        assert((128u64 & x) < 0x1_0000_0000 && (255u64 & x) < 0x1_0000_0000) by (bit_vector);
    } else if k == 8 {
        assert(p2(8) == 256) by (compute_only);
        assert(x < 0x1_0000_0000 ==> ((((256u64 & x) == 256u64) && ((511u64 & x) == x)) <==> (256u64 <= x && x < 512u64))) by (bit_vector);
        assert((256u64 & x) < 0x1_0000_0000 && (511u64 & x) < 0x1_0000_0000) by (bit_vector);
    } else if k == 9 {
        assert(p2(9) == 512) by (compute_only);
        assert(x < 0x1_0000_0000 ==> ((((512u64 & x) == 512u64) && ((1023u64 & x) == x)) <==> (512u64 <= x && x < 1024u64))) by (bit_vector);
        assert((512u64 & x) < 0x1_0000_0000 && (1023u64 & x) < 0x1_0000_0000) by (bit_vector);
    } else if k == 10 {
        assert(p2(10) == 1024) by (compute_only);
        assert(x < 0x1_0000_0000 ==> ((((1024u64 & x) == 1024u64) && ((2047u64 & x) == x)) <==> (1024u64 <= x && x < 2048u64))) by (bit_vector);
        assert((1024u64 & x) < 0x1_0000_0000 && (2047u64 & x) < 0x1_0000_0000) by (bit_vector);
    } else if k == 11 {
        assert(p2(11) == 2048) by (compute_only);
        assert(x < 0x1_0000_0000 ==> ((((2048u64 & x) == 2048u64) && ((4095u64 & x) == x)) <==> (2048u64 <= x && x < 4096u64))) by (bit_vector);
        assert((2048u64 & x) < 0x1_0000_0000 && (4095u64 & x) < 0x1_0000_0000) by (bit_vector);
    } else if k == 12 {
        assert(p2(12) == 4096) by (compute_only);
        assert(x < 0x1_0000_0000 ==> ((((4096u64 & x) == 4096u64) && ((8191u64 & x) == x)) <==> (4096u64 <= x && x < 8192u64))) by (bit_vector);
        assert((4096u64 & x) < 0x1_0000_0000 && (8191u64 & x) < 0x1_0000_0000) by (bit_vector);
    } else if k == 13 {
        assert(p2(13) == 8192) by (compute_only);
        assert(x < 0x1_0000_0000 ==> ((((8192u64 & x) == 8192u64) && ((16383u64 & x) == x)) <==> (8192u64 <= x && x < 16384u64))) by (bit_vector);
        assert((8192u64 & x) < 0x1_0000_0000 && (16383u64 & x) < 0x1_0000_0000) by (bit_vector);
    } else if k == 14 {
        assert(p2(14) == 16384) by (compute_only);
        assert(x < 0x1_0000_0000 ==> ((((16384u64 & x) == 16384u64) && ((32767u64 & x) == x)) <==> (16384u64 <= x && x < 32768u64))) by (bit_vector);
        assert((16384u64 & x) < 0x1_0000_0000 && (32767u64 & x) < 0x1_0000_0000) by (bit_vector);
    } else if k == 15 {
        assert(p2(15) == 32768) by (compute_only);
        assert(x < 0x1_0000_0000 ==> ((((32768u64 & x) == 32768u64) && ((65535u64 & x) == x)) <==> (32768u64 <= x && x < 65536u64))) by (bit_vector);
        assert((32768u64 & x) < 0x1_0000_0000 && (65535u64 & x) < 0x1_0000_0000) by (bit_vector);
    } else if k == 16 {
        assert(p2(16) == 65536) by (compute_only);
        assert(x < 0x1_0000_0000 ==> ((((65536u64 & x) == 65536u64) && ((131071u64 & x) == x)) <==> (65536u64 <= x && x < 131072u64))) by (bit_vector);
        assert((65536u64 & x) < 0x1_0000_0000 && (131071u64 & x) < 0x1_0000_0000) by (bit_vector);
    } else if k == 17 {
        assert(p2(17) == 131072) by (compute_only);
        assert(x < 0x1_0000_0000 ==> ((((131072u64 & x) == 131072u64) && ((262143u64 & x) == x)) <==> (131072u64 <= x && x < 262144u64))) by (bit_vector);
        assert((131072u64 & x) < 0x1_0000_0000 && (262143u64 & x) < 0x1_0000_0000) by (bit_vector);
    } else if k == 18 {
        assert(p2(18) == 262144) by (compute_only);
        assert(x < 0x1_0000_0000 ==> ((((262144u64 & x) == 262144u64) && ((524287u64 & x) == x)) <==> (262144u64 <= x && x < 524288u64))) by (bit_vector);
        assert((262144u64 & x) < 0x1_0000_0000 && (524287u64 & x) < 0x1_0000_0000) by (bit_vector);
    } else if k == 19 {
        assert(p2(19) == 524288) by (compute_only);
        assert(x < 0x1_0000_0000 ==> ((((524288u64 & x) == 524288u64) && ((1048575u64 & x) == x)) <==> (524288u64 <= x && x < 1048576u64))) by (bit_vector);
        assert((524288u64 & x) < 0x1_0000_0000 && (1048575u64 & x) < 0x1_0000_0000) by (bit_vector);
    } else if k == 20 {
        assert(p2(20) == 1048576) by (compute_only);
        assert(x < 0x1_0000_0000 ==> ((((1048576u64 & x) == 1048576u64) && ((2097151u64 & x) == x)) <==> (1048576u64 <= x && x < 2097152u64))) by (bit_vector);
        assert((1048576u64 & x) < 0x1_0000_0000 && (2097151u64 & x) < 0x1_0000_0000) by (bit_vector);
    } else if k == 21 {
        assert(p2(21) == 2097152) by (compute_only);
        assert(x < 0x1_0000_0000 ==> ((((2097152u64 & x) == 2097152u64) && ((4194303u64 & x) == x)) <==> (2097152u64 <= x && x < 4194304u64))) by (bit_vector);
        assert((2097152u64 & x) < 0x1_0000_0000 && (4194303u64 & x) < 0x1_0000_0000) by (bit_vector);
    } else if k == 22 {
        assert(p2(22) == 4194304) by (compute_only);
        assert(x < 0x1_0000_0000 ==> ((((4194304u64 & x) == 4194304u64) && ((8388607u64 & x) == x)) <==> (4194304u64 <= x && x < 8388608u64))) by (bit_vector);
        assert((4194304u64 & x) < 0x1_0000_0000 && (8388607u64 & x) < 0x1_0000_0000) by (bit_vector);
    } else if k == 23 {
        assert(p2(23) == 8388608) by (compute_only);
        assert(x < 0x1_0000_0000 ==> ((((8388608u64 & x) == 8388608u64) && ((16777215u64 & x) == x)) <==> (8388608u64 <= x && x < 16777216u64))) by (bit_vector);
        assert((8388608u64 & x) < 0x1_0000_0000 && (16777215u64 & x) < 0x1_0000_0000) by (bit_vector);
    } else if k == 24 {
        assert(p2(24) == 16777216) by (compute_only);
        assert(x < 0x1_0000_0000 ==> ((((16777216u64 & x) == 16777216u64) && ((33554431u64 & x) == x)) <==> (16777216u64 <= x && x < 33554432u64))) by (bit_vector);
        assert((16777216u64 & x) < 0x1_0000_0000 && (33554431u64 & x) < 0x1_0000_0000) by (bit_vector);
    } else if k == 25 {
        assert(p2(25) == 33554432) by (compute_only);
        assert(x < 0x1_0000_0000 ==> ((((33554432u64 & x) == 33554432u64) && ((67108863u64 & x) == x)) <==> (33554432u64 <= x && x < 67108864u64))) by (bit_vector);
        assert((33554432u64 & x) < 0x1_0000_0000 && (67108863u64 & x) < 0x1_0000_0000) by (bit_vector);
    } else if k == 26 {
        assert(p2(26) == 67108864) by (compute_only);
        assert(x < 0x1_0000_0000 ==> ((((67108864u64 & x) == 67108864u64) && ((134217727u64 & x) == x)) <==> (67108864u64 <= x && x < 134217728u64))) by (bit_vector);
        assert((67108864u64 & x) < 0x1_0000_0000 && (134217727u64 & x) < 0x1_0000_0000) by (bit_vector);
    } else if k == 27 {
        assert(p2(27) == 134217728) by (compute_only);
        assert(x < 0x1_0000_0000 ==> ((((134217728u64 & x) == 134217728u64) && ((268435455u64 & x) == x)) <==> (134217728u64 <= x && x < 268435456u64))) by (bit_vector);
        assert((134217728u64 & x) < 0x1_0000_0000 && (268435455u64 & x) < 0x1_0000_0000) by (bit_vector);
    } else if k == 28 {
        assert(p2(28) == 268435456) by (compute_only);
        assert(x < 0x1_0000_0000 ==> ((((268435456u64 & x) == 268435456u64) && ((536870911u64 & x) == x)) <==> (268435456u64 <= x && x < 536870912u64))) by (bit_vector);
        assert((268435456u64 & x) < 0x1_0000_0000 && (536870911u64 & x) < 0x1_0000_0000) by (bit_vector);
    } else if k == 29 {
        assert(p2(29) == 536870912) by (compute_only);
        assert(x < 0x1_0000_0000 ==> ((((536870912u64 & x) == 536870912u64) && ((1073741823u64 & x) == x)) <==> (536870912u64 <= x && x < 1073741824u64))) by (bit_vector);
        assert((536870912u64 & x) < 0x1_0000_0000 && (1073741823u64 & x) < 0x1_0000_0000) by (bit_vector);
    } else if k == 30 {
        assert(p2(30) == 1073741824) by (compute_only);
        assert(x < 0x1_0000_0000 ==> ((((1073741824u64 & x) == 1073741824u64) && ((2147483647u64 & x) == x)) <==> (1073741824u64 <= x && x < 2147483648u64))) by (bit_vector);
        assert((1073741824u64 & x) < 0x1_0000_0000 && (2147483647u64 & x) < 0x1_0000_0000) by (bit_vector);
    } else if k == 31 {
        assert(p2(31) == 2147483648) by (compute_only);
        assert(x < 0x1_0000_0000 ==> ((((2147483648u64 & x) == 2147483648u64) && ((4294967295u64 & x) == x)) <==> (2147483648u64 <= x && x < 4294967296u64))) by (bit_vector);
        assert((2147483648u64 & x) < 0x1_0000_0000 && (4294967295u64 & x) < 0x1_0000_0000) by (bit_vector);
    }
}
/// h is the integer logarithm of n
pub open spec fn ilog2_is(n: int, h: int) -> bool { 0 <= h <= 63 && p2(h) <= n < 2 * p2(h) }
/// the three in-VM checks of ilog2 on the halves of n and 2^hint, for EVERY hint
pub proof fn lemma_ilog2_all(n: Felt, hint: Felt)
    ensures ({
        let h = hint.val();
        let p = p2(h);
        let nh = n.val() / 0x1_0000_0000; let nl = n.val() % 0x1_0000_0000;
        let ph = p / 0x1_0000_0000; let pl = p % 0x1_0000_0000;
        let d = if pl == 0 { 1int } else { 0int };
        let phalf = if d == 1 { ph } else { pl };
        let nhalf = if d == 1 { nh } else { nl };
        &&& (h > 63 ==> !ilog2_is(n.val(), h))
        &&& (h <= 63 ==> 1 <= p < P() && 0 <= ph < 0x1_0000_0000 && 0 <= pl < 0x1_0000_0000 && 0 <= nh < 0x1_0000_0000 && 0 <= nl < 0x1_0000_0000
                && 1 <= phalf <= 0x8000_0000 && fmul(2, phalf) == 2 * phalf && fadd(2 * phalf, fneg(1)) == 2 * phalf - 1 && 2 * phalf - 1 < 0x1_0000_0000
                && fmul(1 - d, nh) == (1 - d) * nh
                && (((phalf as u64) & (nhalf as u64)) as int) < 0x1_0000_0000 && ((((2 * phalf - 1) as u64) & (nhalf as u64)) as int) < 0x1_0000_0000
                && (((1 - d) * nh == 0 && ((phalf as u64) & (nhalf as u64)) as int == phalf && (((2 * phalf - 1) as u64) & (nhalf as u64)) as int == nhalf)
                        <==> ilog2_is(n.val(), h)))
    })
{
    broadcast use felt_model::felt_axioms;
    let h = hint.val();
    if h <= 63 {
        lemma_p2_bits(h);
        lemma_p2_split(h);
        lemma_p2_consts();
        let p = p2(h);
        let nh = n.val() / 0x1_0000_0000; let nl = n.val() % 0x1_0000_0000;
        assert(fneg(1) == P() - 1);
        if h < 32 {
            lemma_ilog_mask(nl as u64, h);
            assert(fmul(2, p) == 2 * p);
            assert(fadd(2 * p, fneg(1)) == 2 * p - 1);
            assert(fmul(1, nh) == nh);
        } else {
            lemma_ilog_mask(nh as u64, h - 32);
            let q = p2(h - 32);
            assert(p == 0x1_0000_0000 * q);
            assert(fmul(2, q) == 2 * q);
            assert(fadd(2 * q, fneg(1)) == 2 * q - 1);
            assert(fmul(0, nh) == 0);
        }
    }
}
// ---- extension field product (docs/src/design/stack/field_ops.md, EXT2MUL): (b0, b1) * (a0, a1) = (c0, c1)
pub open spec fn ext2_c0(b0: int, b1: int, a0: int, a1: int) -> int { fsub(fmul(b0, a0), fmul(fmul(2, b1), a1)) }
pub open spec fn ext2_c1(b0: int, b1: int, a0: int, a1: int) -> int { fsub(fmul(fadd(b0, b1), fadd(a1, a0)), fmul(b0, a0)) }
