// ---- spec/air_sound.rs : hub — the documented stack constraints pin down the operation results --
// Pure field arithmetic over the documented constraint polynomials (no code involved): with the
// operation flag equal to 1, "every constraint evaluates to 0" forces the enforced next-row cells
// to the values of the hub relation spec/opsem.rs (C04: any other value makes a constraint non-zero).
// T2: P is prime (no zero divisors) — axiom.
#[verifier::external_body]
pub proof fn axiom_no_zero_divisors(a: int, b: int)
    requires 0 <= a < P(), 0 <= b < P()
    ensures fmul(a, b) == 0 <==> (a == 0 || b == 0) {}

pub proof fn lemma_cval_one(f: Felt, p: int)
    requires f.val() == 1, 0 <= p < P()
    ensures cval(f, p) == p
{
    assert(1 * p == p);
}
pub proof fn lemma_cval_zero(f: Felt, p: int)
    requires f.val() == 0
    ensures cval(f, p) == 0
{
    assert(0 * p == 0);
}
pub proof fn lemma_fsub_zero(a: int, b: int)
    requires 0 <= a < P(), 0 <= b < P()
    ensures fsub(a, b) == 0 <==> a == b
{}
pub proof fn lemma_f_range(a: int, b: int)
    ensures 0 <= fadd(a, b) < P(), 0 <= fsub(a, b) < P(), 0 <= fmul(a, b) < P(), 0 <= fneg(a) < P()
{}

/// ADD / MUL / INCR / NOT / NEG: the single constraint determines s0'
pub proof fn sound_add(f: Felt, s0: Felt, s1: Felt, n0: Felt)
    requires f.val() == 1, cval(f, fsub(fadd(s0.val(), s1.val()), n0.val())) == 0
    ensures n0.val() == fadd(s1.val(), s0.val())
{
    lemma_f_range(s0.val(), s1.val());
    lemma_f_range(fadd(s0.val(), s1.val()), n0.val());
    lemma_cval_one(f, fsub(fadd(s0.val(), s1.val()), n0.val()));
    lemma_fsub_zero(fadd(s0.val(), s1.val()), n0.val());
}
pub proof fn sound_mul(f: Felt, s0: Felt, s1: Felt, n0: Felt)
    requires f.val() == 1, cval(f, fsub(fmul(s0.val(), s1.val()), n0.val())) == 0
    ensures n0.val() == fmul(s1.val(), s0.val())
{
    lemma_f_range(s0.val(), s1.val());
    lemma_f_range(fmul(s0.val(), s1.val()), n0.val());
    lemma_cval_one(f, fsub(fmul(s0.val(), s1.val()), n0.val()));
    lemma_fsub_zero(fmul(s0.val(), s1.val()), n0.val());
    assert(s0.val() * s1.val() == s1.val() * s0.val()) by (nonlinear_arith);
}
pub proof fn sound_incr(f: Felt, s0: Felt, n0: Felt)
    requires f.val() == 1, cval(f, fsub(fadd(s0.val(), 1), n0.val())) == 0
    ensures n0.val() == fadd(s0.val(), 1)
{
    lemma_f_range(s0.val(), 1);
    lemma_f_range(fadd(s0.val(), 1), n0.val());
    lemma_cval_one(f, fsub(fadd(s0.val(), 1), n0.val()));
    lemma_fsub_zero(fadd(s0.val(), 1), n0.val());
}
pub proof fn sound_neg(f: Felt, s0: Felt, n0: Felt)
    requires f.val() == 1, cval(f, fsub(fadd(s0.val(), n0.val()), 0)) == 0
    ensures n0.val() == fneg(s0.val())
{
    lemma_f_range(s0.val(), n0.val());
    lemma_cval_one(f, fsub(fadd(s0.val(), n0.val()), 0));
}
pub proof fn sound_not(f: Felt, s0: Felt, n0: Felt)
    requires f.val() == 1, is_bin_val(s0.val()), cval(f, fsub(fadd(s0.val(), n0.val()), 1)) == 0
    ensures n0.val() == (if s0.val() == 0 { 1int } else { 0int })
{
    lemma_f_range(s0.val(), n0.val());
    lemma_cval_one(f, fsub(fadd(s0.val(), n0.val()), 1));
}
pub open spec fn is_bin_val(v: int) -> bool { v == 0 || v == 1 }
/// binary check polynomial x^2 - x
pub proof fn sound_binary(x: int)
    requires 0 <= x < P()
    ensures fsub(fmul(x, x), x) == 0 <==> is_bin_val(x)
{
    lemma_f_range(x, x);
    lemma_fsub_zero(fmul(x, x), x);
    if x == 0 { assert(fmul(0, 0) == 0) by { assert(0 * 0 == 0); } }
    if x == 1 { assert(fmul(1, 1) == 1) by { assert(1 * 1 == 1); } }
    if fmul(x, x) == x && x != 0 && x != 1 {
        // x * (x - 1) == 0 mod P with both factors non-zero contradicts primality
        let y = x - 1;
        assert((x * y) % P() == 0) by {
            assert(x * y == x * x - x) by (nonlinear_arith) requires y == x - 1;
            vstd::arithmetic::div_mod::lemma_sub_mod_noop(x * x, x, P());
            vstd::arithmetic::div_mod::lemma_small_mod(x as nat, P() as nat);
        }
        axiom_no_zero_divisors(x, y);
    }
}
/// AND / OR on binary operands
pub proof fn sound_and(f: Felt, s0: Felt, s1: Felt, n0: Felt)
    requires f.val() == 1, is_bin_val(s0.val()),
        cval(f, fsub(fmul(s1.val(), s1.val()), s1.val())) == 0,
        cval(f, fsub(n0.val(), fmul(s0.val(), s1.val()))) == 0,
    ensures is_bin_val(s1.val()), n0.val() == (if s0.val() == 1 && s1.val() == 1 { 1int } else { 0int })
{
    lemma_f_range(s1.val(), s1.val());
    lemma_f_range(fmul(s1.val(), s1.val()), s1.val());
    lemma_cval_one(f, fsub(fmul(s1.val(), s1.val()), s1.val()));
    sound_binary(s1.val());
    lemma_f_range(s0.val(), s1.val());
    lemma_f_range(n0.val(), fmul(s0.val(), s1.val()));
    lemma_cval_one(f, fsub(n0.val(), fmul(s0.val(), s1.val())));
    lemma_fsub_zero(n0.val(), fmul(s0.val(), s1.val()));
    assert(0 * s1.val() == 0 && 1 * s1.val() == s1.val());
}
/// EQ: s0' is 1 iff the operands are equal (helper h0 is existential: any value works)
pub proof fn sound_eq(f: Felt, s0: Felt, s1: Felt, n0: Felt, h0: Felt)
    requires f.val() == 1,
        cval(f, fsub(fmul(fsub(s0.val(), s1.val()), n0.val()), 0)) == 0,
        cval(f, fsub(n0.val(), fsub(1, fmul(fsub(s0.val(), s1.val()), h0.val())))) == 0,
    ensures n0.val() == (if s0.val() == s1.val() { 1int } else { 0int })
{
    let d = fsub(s0.val(), s1.val());
    lemma_f_range(s0.val(), s1.val());
    lemma_fsub_zero(s0.val(), s1.val());
    lemma_f_range(d, n0.val());
    lemma_f_range(d, h0.val());
    lemma_cval_one(f, fsub(fmul(d, n0.val()), 0));
    lemma_f_range(1, fmul(d, h0.val()));
    lemma_f_range(n0.val(), fsub(1, fmul(d, h0.val())));
    lemma_cval_one(f, fsub(n0.val(), fsub(1, fmul(d, h0.val()))));
    lemma_fsub_zero(n0.val(), fsub(1, fmul(d, h0.val())));
    axiom_no_zero_divisors(d, n0.val());
    if d == 0 { assert(0 * h0.val() == 0); }
}
/// EQZ
pub proof fn sound_eqz(f: Felt, s0: Felt, n0: Felt, h0: Felt)
    requires f.val() == 1,
        cval(f, fsub(fmul(s0.val(), n0.val()), 0)) == 0,
        cval(f, fsub(n0.val(), fsub(1, fmul(s0.val(), h0.val())))) == 0,
    ensures n0.val() == (if s0.val() == 0 { 1int } else { 0int })
{
    let d = s0.val();
    lemma_f_range(d, n0.val());
    lemma_f_range(d, h0.val());
    lemma_cval_one(f, fsub(fmul(d, n0.val()), 0));
    lemma_f_range(1, fmul(d, h0.val()));
    lemma_f_range(n0.val(), fsub(1, fmul(d, h0.val())));
    lemma_cval_one(f, fsub(n0.val(), fsub(1, fmul(d, h0.val()))));
    lemma_fsub_zero(n0.val(), fsub(1, fmul(d, h0.val())));
    axiom_no_zero_divisors(d, n0.val());
    if d == 0 { assert(0 * h0.val() == 0); }
}
/// a flag of 0 switches every constraint of the group off
pub proof fn sound_flag_off(f: Felt, p: int)
    requires f.val() == 0
    ensures cval(f, p) == 0
{ lemma_cval_zero(f, p); }
