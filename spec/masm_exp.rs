// ---- spec/masm_exp.rs : hub — field exponentiation and the EXPACC chain of `exp`, `exp.uN`, `exp.b`
// (needs masm_hub.rs, opsem.rs, masm_pow2.rs)
/// b^e in the field (e >= 0)
pub open spec fn fpow(b: int, e: int) -> int
    decreases e
{
    if e <= 0 { 1 } else { fmul(b, fpow(b, e - 1)) }
}
pub proof fn lemma_fmul_assoc(a: int, b: int, c: int)
    ensures fmul(fmul(a, b), c) == fmul(a, fmul(b, c)), fmul(a, b) == fmul(b, a), 0 <= fmul(a, b) < P()
{
    vstd::arithmetic::div_mod::lemma_mul_mod_noop_general(a * b, c, P());
    vstd::arithmetic::div_mod::lemma_mul_mod_noop_general(a, b * c, P());
    assert((a * b) * c == a * (b * c)) by (nonlinear_arith);
    assert(a * b == b * a) by (nonlinear_arith);
}
pub proof fn lemma_fpow_range(b: int, e: int)
    ensures 0 <= fpow(b, e) < P()
    decreases e
{
    if e > 0 { lemma_fpow_range(b, e - 1); }
}
/// b^(x+y) = b^x * b^y
pub proof fn lemma_fpow_add(b: int, x: int, y: int)
    requires x >= 0, y >= 0
    ensures fpow(b, x + y) == fmul(fpow(b, x), fpow(b, y))
    decreases x
{
    lemma_fpow_range(b, y);
    if x > 0 {
        lemma_fpow_add(b, x - 1, y);
        lemma_fmul_assoc(b, fpow(b, x - 1), fpow(b, y));
    } else {
        assert(fmul(1, fpow(b, y)) == fpow(b, y));
    }
}
/// (b*b)^k = b^(2k)
pub proof fn lemma_fpow_sq(b: int, k: int)
    requires k >= 0
    ensures fpow(fmul(b, b), k) == fpow(b, 2 * k)
    decreases k
{
    if k > 0 {
        lemma_fpow_sq(b, k - 1);
        lemma_fpow_add(b, 2, 2 * (k - 1));
        assert(fpow(b, 2) == fmul(b, fmul(b, 1))) by { reveal_with_fuel(fpow, 3); }
        // fmul(b, fmul(b, 1)) == fmul(b, b): (b * ((b*1) % P)) % P == (b*b) % P
        vstd::arithmetic::div_mod::lemma_mul_mod_noop_general(b, b, P());
        assert(b * 1 == b);
        // left side: fpow(b2, k) = fmul(b2, fpow(b2, k-1)) = fmul(b2, fpow(b, 2(k-1)))
        lemma_fpow_range(b, 2 * (k - 1));
        // fmul(b*b % P, x) == fmul(fmul(b, fmul(b,1)), x)
        assert(fmul(b, fmul(b, 1)) == fmul(b, b)) by {
            vstd::arithmetic::div_mod::lemma_mul_mod_noop_general(b, b * 1, P());
        }
    }
}
/// n EXPACC steps.  Opaque: clients use lemma_expacc_iter only.
#[verifier::opaque]
pub open spec fn expacc_iter(s: Seq<Felt>, n: int) -> Seq<Felt>
    decreases n
{
    if n <= 0 { s } else { expacc_iter(sem_expacc(s), n - 1) }
}
/// e = (e % 2) + 2 * (e / 2) split against 2^n = 2 * 2^(n-1)
pub proof fn lemma_halve(e: int, n: int)
    requires e >= 0, n >= 1
    ensures e % p2(n) == e % 2 + 2 * ((e / 2) % p2(n - 1)), e / p2(n) == (e / 2) / p2(n - 1), p2(n) == 2 * p2(n - 1), p2(n - 1) >= 1
{
    lemma_p2_add(n - 1, 0);
    let m = p2(n - 1);
    let h = e / 2;
    let q = h / m; let r = h % m;
    vstd::arithmetic::div_mod::lemma_fundamental_div_mod(h, m);
    vstd::arithmetic::div_mod::lemma_mod_bound(h, m);
    assert(e == 2 * h + e % 2 && 0 <= e % 2 < 2);
    assert(e == q * (2 * m) + (2 * r + e % 2)) by (nonlinear_arith) requires e == 2 * h + e % 2, h == m * q + r;
    vstd::arithmetic::div_mod::lemma_fundamental_div_mod_converse(e, 2 * m, q, 2 * r + e % 2);
}
/// n EXPACC steps on [_, base, acc, e] + rest: acc * base^(e mod 2^n), e / 2^n
pub proof fn lemma_expacc_iter(t: Seq<Felt>, base: int, acc: int, e: int, n: int)
    requires t.len() >= 16, t[1] == fe(base), t[2] == fe(acc), t[3].val() == e, 0 <= base < P(), 0 <= acc < P(), n >= 0
    ensures ({
        let u = expacc_iter(t, n);
        &&& u.len() == t.len()
        &&& u[2] == fe(fmul(acc, fpow(base, e % p2(n))))
        &&& u[3] == fe(e / p2(n))
        &&& u.skip(4) =~= t.skip(4)
    })
    decreases n
{
    reveal(expacc_iter);
    if n <= 0 {
        assert(e % 1 == 0 && e / 1 == e);
        assert(fmul(acc, 1) == acc);
    } else {
        let bit = e % 2;
        let t1 = sem_expacc(t);
        lemma_expacc_step(t, base, acc, e, t.skip(4));
        let base1 = fmul(base, base);
        let acc1 = fmul(acc, if bit == 1 { base } else { 1 });
        assert(t1 =~= seq![fe(bit), fe(base1), fe(acc1), fe(e / 2)] + t.skip(4));
        assert(t1.skip(4) =~= t.skip(4));
        lemma_expacc_iter(t1, base1, acc1, e / 2, n - 1);
        lemma_halve(e, n);
        let k = (e / 2) % p2(n - 1);
        vstd::arithmetic::div_mod::lemma_mod_bound(e / 2, p2(n - 1));
        // acc1 * (base^2)^k == acc * base^(bit + 2k)
        lemma_fpow_sq(base, k);
        lemma_fpow_add(base, bit, 2 * k);
        let f = if bit == 1 { base } else { 1 };
        assert(fpow(base, bit) == f) by { reveal_with_fuel(fpow, 3); assert(fmul(base, 1) == base); }
        lemma_fmul_assoc(acc, f, fpow(base, 2 * k));
    }
}
/// the operation sequence of `exp.uN` (after Push(b) also of `exp.b`): Pad Incr MovUp2 Pad Expacc x n Drop Drop Swap Eqz Assert(0)
#[verifier::opaque]
pub open spec fn exp_chain(s: Seq<Felt>, n: int) -> (Seq<Felt>, bool) {
    let s1 = sem_pad(s); let s2 = sem_incr(s1); let s3 = sem_movup(s2, 2); let s4 = sem_pad(s3);
    let s5 = expacc_iter(s4, n);
    let s6 = sem_drop(s5); let s7 = sem_drop(s6); let s8 = sem_swap(s7); let s9 = sem_eqz(s8);
    (sem_assert(s9), !fail_assert(s9))
}
/// [e, b, ...] -> [b^e, ...]; fails exactly when e does not fit into n bits
pub broadcast proof fn lemma_exp_chain(s: Seq<Felt>, n: int)
    requires s.len() >= 16, 0 <= n
    ensures ({
        let c = #[trigger] exp_chain(s, n);
        &&& c.1 == (s[0].val() < p2(n))
        &&& (c.1 ==> c.0 =~= shl_with(s, seq![fe(fpow(s[1].val(), s[0].val()))], 2))
    })
{
    hide(sem_expacc);
    reveal(exp_chain);
    let e = s[0].val(); let b = s[1].val();
    let rest = s.skip(2);
    let s1 = sem_pad(s); let s2 = sem_incr(s1); let s3 = sem_movup(s2, 2); let s4 = sem_pad(s3);
    assert(fadd(0, 1) == 1);
    assert(s4 =~= seq![fe(0), s[1], fe(1), s[0]] + rest);
    lemma_expacc_iter(s4, b, 1, e, n);
    let s5 = expacc_iter(s4, n);
    lemma_p2_add(n, 0);
    vstd::arithmetic::div_mod::lemma_fundamental_div_mod(e, p2(n));
    vstd::arithmetic::div_mod::lemma_mod_bound(e, p2(n));
    lemma_fpow_range(b, e % p2(n));
    assert(fmul(1, fpow(b, e % p2(n))) == fpow(b, e % p2(n)));
    assert(s5.skip(4) =~= rest);
    let s6 = sem_drop(s5); let s7 = sem_drop(s6); let s8 = sem_swap(s7); let s9 = sem_eqz(s8);
    let q = e / p2(n);
    let a = fpow(b, e % p2(n));
    assert(s5.len() == s.len() + 2);
    assert(s7 =~= seq![fe(a), fe(q)] + rest);
    assert(s8 =~= seq![fe(q), fe(a)] + rest);
    if e < p2(n) {
        vstd::arithmetic::div_mod::lemma_small_mod(e as nat, p2(n) as nat);
        vstd::arithmetic::div_mod::lemma_basic_div(e, p2(n));
        assert(q == 0 && a == fpow(b, e));
        assert(s9 =~= seq![fe(1), fe(a)] + rest);
        assert(sem_assert(s9) =~= seq![fe(a)] + rest + zf(s9));
    } else {
        assert(q >= 1) by {
            vstd::arithmetic::div_mod::lemma_div_is_ordered(p2(n), e, p2(n));
            vstd::arithmetic::div_mod::lemma_div_basics(p2(n));
        }
        assert(q <= e) by { vstd::arithmetic::div_mod::lemma_div_is_ordered_by_denominator(e, 1, p2(n)); }
        assert(s9[0] == fe(0));
    }
}
