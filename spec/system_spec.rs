// ---- spec/system_spec.rs : hub — abstract view of the system registers and their trace columns
pub struct Regs { pub clk: int, pub fmp: Felt, pub ctx: int, pub in_syscall: bool, pub fn_hash: Seq<Felt> }
// ---- spec side: abstract view of the system registers + trace columns --------------------------
impl ContextId {
    pub open spec fn v(self) -> int { self.0 as int }
}

impl System {
    /// all 8 system columns have the same length and can hold row clk+1
    pub open spec fn cols_len(self) -> int { self.clk_trace@.len() as int }
    pub open spec fn wf(self) -> bool {
        &&& self.ctx_trace@.len() == self.cols_len()
        &&& self.fmp_trace@.len() == self.cols_len()
        &&& self.in_syscall_trace@.len() == self.cols_len()
        &&& forall|j: int| 0 <= j < 4 ==> (#[trigger] self.fn_hash_trace[j])@.len() == self.cols_len()
        &&& self.cols_len() >= 1
        &&& (self.clk as int) < self.cols_len()
    }
    pub open spec fn has_room(self) -> bool { self.wf() && (self.clk as int) + 1 < self.cols_len() }

    /// row i of the system columns as a tuple of field values
    pub open spec fn row(self, i: int) -> (int, int, int, int, Seq<int>) {
        (self.clk_trace@[i].val(), self.fmp_trace@[i].val(), self.ctx_trace@[i].val(),
         self.in_syscall_trace@[i].val(),
         Seq::new(4, |j: int| self.fn_hash_trace[j]@[i].val()))
    }
    /// the register values as they must appear in a row
    pub open spec fn regs_row(self) -> (int, int, int, int, Seq<int>) {
        (self.clk as int, self.fmp.val(), self.ctx.v(), if self.in_syscall { 1int } else { 0int },
         Seq::new(4, |j: int| self.fn_hash[j].val()))
    }
    pub open spec fn same_traces(self, o: System) -> bool {
        self.clk_trace == o.clk_trace && self.ctx_trace == o.ctx_trace && self.fmp_trace == o.fmp_trace
        && self.in_syscall_trace == o.in_syscall_trace && self.fn_hash_trace == o.fn_hash_trace
    }
    pub open spec fn regs(self) -> Regs {
        Regs { clk: self.clk as int, fmp: self.fmp, ctx: self.ctx.v(), in_syscall: self.in_syscall, fn_hash: self.fn_hash@ }
    }
    pub open spec fn same_regs(self, o: System) -> bool {
        self.ctx == o.ctx && self.fmp == o.fmp && self.in_syscall == o.in_syscall && self.fn_hash == o.fn_hash
    }
}

