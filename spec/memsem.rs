// ---- spec/memsem.rs : hub — documented effect of the memory operations on (stack, memory) (C07)
// Written from docs/src/design/stack/io_ops.md and docs/src/user_docs/assembly/io_operations.md.
// Needs spec/mem_model.rs and spec/opsem.rs.
/// a word in stack order (element 3 on top)
pub open spec fn rev4(w: Seq<Felt>) -> Seq<Felt> { seq![w[3], w[2], w[1], w[0]] }
/// MLOADW: [a, _, _, _, _, ...] -> [w3, w2, w1, w0, ...]  (address popped, top word overwritten)
pub open spec fn sem_mloadw(s: Seq<Felt>, w: Seq<Felt>) -> Seq<Felt> { shl_with(s, rev4(w), 5) }
/// MLOAD: [a, ...] -> [w0, ...]
pub open spec fn sem_mload(s: Seq<Felt>, w: Seq<Felt>) -> Seq<Felt> { keep_with(s, seq![w[0]], 1) }
/// MSTOREW: [a, A, ...] -> [A, ...]; mem[a] = A in memory order (s1 is element 3 of the word)
pub open spec fn sem_mstorew(s: Seq<Felt>) -> Seq<Felt> { shl_with(s, s.subrange(1, 5), 5) }
pub open spec fn word_mstorew(s: Seq<Felt>) -> Seq<Felt> { seq![s[4], s[3], s[2], s[1]] }
/// MSTORE: [a, v, ...] -> [v, ...]; only element 0 of mem[a] changes
pub open spec fn sem_mstore(s: Seq<Felt>) -> Seq<Felt> { sem_drop(s) }
pub open spec fn word_mstore(s: Seq<Felt>, old_w: Seq<Felt>) -> Seq<Felt> { seq![s[1], old_w[1], old_w[2], old_w[3]] }
/// MSTREAM / PIPE: the top 8 elements become the words for a (positions 4..8) and a+1 (positions
/// 0..4) in stack order, positions 8..12 stay, the address in position 12 grows by 2
pub open spec fn sem_two_words(s: Seq<Felt>, w1: Seq<Felt>, w2: Seq<Felt>) -> Seq<Felt> {
    keep_with(s, rev4(w2) + rev4(w1) + s.subrange(8, 12) + seq![felt_of(s[12].val() + 2)], 13)
}
pub open spec fn is_mem_op(op: Operation) -> bool {
    op is MLoadW || op is MStoreW || op is MLoad || op is MStore || op is MStream || op is Pipe
}
/// "addresses of 2^32 or more fail": every address the operation touches must be below 2^32
pub open spec fn mem_fail(op: Operation, s: Seq<Felt>) -> bool {
    match op {
        Operation::MLoadW | Operation::MLoad | Operation::MStoreW | Operation::MStore => s[0].val() >= B32(),
        Operation::MStream | Operation::Pipe => s[12].val() + 1 >= B32(),
        _ => false,
    }
}
/// effect of one operation on (stack, memory) in context `ctx`; operations other than the three
/// stores leave every cell of every context unchanged
pub open spec fn mem_rel(op: Operation, s: Seq<Felt>, ctx: int, m: Mem, s2: Seq<Felt>, m2: Mem) -> bool {
    match op {
        Operation::MLoadW => s2 =~= sem_mloadw(s, mget(m, ctx, s[0].val())) && m2 =~= m,
        Operation::MLoad => s2 =~= sem_mload(s, mget(m, ctx, s[0].val())) && m2 =~= m,
        Operation::MStoreW => s2 =~= sem_mstorew(s) && m2 =~= mput(m, ctx, s[0].val(), word_mstorew(s)),
        Operation::MStore => s2 =~= sem_mstore(s)
            && m2 =~= mput(m, ctx, s[0].val(), word_mstore(s, mget(m, ctx, s[0].val()))),
        Operation::MStream => s2 =~= sem_two_words(s, mget(m, ctx, s[12].val()), mget(m, ctx, s[12].val() + 1)) && m2 =~= m,
        Operation::Pipe => exists|w1: Seq<Felt>, w2: Seq<Felt>| w1.len() == 4 && w2.len() == 4
            && s2 =~= #[trigger] sem_two_words(s, w1, w2)
            && m2 =~= mput(mput(m, ctx, s[12].val(), w1), ctx, s[12].val() + 1, w2),
        _ => m2 =~= m,
    }
}
